#!/bin/bash
# usage: tools/seed_cross.sh <seed-id> <check-id> ; runs another property's quick check against a seeded defect (scratch worktree)
S=$1; C=$2; WT=/tmp/cx-$S-$C-$$
git -C /repo worktree add -q --detach $WT HEAD || exit 9
trap "git -C /repo worktree remove --force $WT; git -C /repo worktree prune" EXIT
git -C $WT apply /verif/seeded/$S/patch.diff || { echo "patch does not apply"; exit 1; }
cd /verif; VERIF_REPO=$WT VERIF_NO_EVIDENCE=1 ./check $C --tier quick > /tmp/cx-$S-$C.log 2>&1; echo "seed=$S check=$C exit=$? $(grep -c '^violation' /tmp/cx-$S-$C.log) violation kinds: $(grep '^violation' /tmp/cx-$S-$C.log | grep -o 'clause=[^ ]* cause=[^ ]*' | sort -u | tr '\n' ';')"
