#!/venv/bin/python
"""Run every seeded defect (seeded/<id>-<n>/patch.diff) against its property's quick check, in a scratch
worktree of /repo (VERIF_REPO), never in /repo itself.  Updates seeded/*/meta.json and seeded/RESULTS.md.
usage: tools/seed_matrix.py [--tier quick] [--only C09-2 ...] [--all-checks]"""
import json
import os
import re
import subprocess
import sys
import time

VERIF = os.path.dirname(os.path.dirname(os.path.abspath(__file__)))
SEEDED = os.path.join(VERIF, "seeded")


def sh(*a, **k):
    return subprocess.run(list(a), capture_output=True, text=True, **k)


def main():
    only = [x for x in sys.argv[1:] if not x.startswith("--")]
    all_checks = "--all-checks" in sys.argv
    names = sorted(d for d in os.listdir(SEEDED) if os.path.isdir(os.path.join(SEEDED, d)) and (not only or d in only))
    head = sh("git", "-C", "/repo", "rev-parse", "--short", "HEAD").stdout.strip()
    rows = []
    for name in names:
        d = os.path.join(SEEDED, name)
        meta = json.load(open(os.path.join(d, "meta.json")))
        prop = meta["breaks_property"]
        wt = "/tmp/mx-%s-%d" % (name, os.getpid())
        sh("git", "-C", "/repo", "worktree", "add", "--detach", wt, "HEAD")
        try:
            ap = sh("git", "-C", wt, "apply", os.path.join(d, "patch.diff"))
            if ap.returncode != 0:
                rows.append((name, prop, "patch does not apply to %s" % head, "", 0))
                continue
            checks = [prop] if not all_checks else ["C01", "C02", "C03", "C06", "C09", "C10", "C14", "C17", "C18"]
            det = []
            for c in checks:
                env = dict(os.environ, VERIF_REPO=wt, VERIF_NO_EVIDENCE="1")
                if "--full" not in sys.argv:
                    env["VERIF_STOP_ON_VIOLATION"] = "1"   # detection is the question: stop the batch at the first unexplained violation
                env.pop("VERIF_REEXEC", None)
                t = time.time()
                p = sh(os.path.join(VERIF, "check"), c, "--tier", "quick", env=env, cwd=VERIF)
                clauses = sorted(set(re.findall(r"^violation clause=(\S+) cause=None", p.stdout, re.M)))
                det.append({"check": c, "exit": p.returncode, "clauses": clauses, "wall_s": round(time.time() - t, 1)})
            own = next(x for x in det if x["check"] == prop)
            meta["detected_by"] = {"repo_head": head, "tier": "quick", "results": det,
                                   "own_property_check_detects": own["exit"] == 1}
            json.dump(meta, open(os.path.join(d, "meta.json"), "w"), indent=1)
            rows.append((name, prop, "DETECTED" if own["exit"] == 1 else "missed (exit %d)" % own["exit"], ", ".join(own["clauses"]), own["wall_s"]))
            print(rows[-1], flush=True)
        finally:
            sh("git", "-C", "/repo", "worktree", "remove", "--force", wt)
            sh("git", "-C", "/repo", "worktree", "prune")
    # the report is always rebuilt from every seed's meta.json
    with open(os.path.join(SEEDED, "RESULTS.md"), "w") as f:
        f.write("# Seeded defects vs. the quick checks\n\nEach seed was applied to a scratch worktree of /repo (never /repo itself) and its own property's quick check was "
                "run against it (VERIF_REPO).\n\n| seed | property | repo HEAD | result | violated clauses reported | wall s | needs |\n|---|---|---|---|---|---|---|\n")
        for name in sorted(d for d in os.listdir(SEEDED) if os.path.isdir(os.path.join(SEEDED, d))):
            m = json.load(open(os.path.join(SEEDED, name, "meta.json")))
            db = m.get("detected_by") or {}
            own = next((x for x in db.get("results", []) if x["check"] == m["breaks_property"]), None)
            res = "not run" if own is None else ("DETECTED" if own["exit"] == 1 else "missed (exit %d)" % own["exit"])
            f.write("| %s | %s | %s | %s | %s | %s | %s |\n" % (name, m["breaks_property"], db.get("repo_head", ""), res, ", ".join(own["clauses"]) if own else "",
                                                          own["wall_s"] if own else "", (m.get("needs_to_manifest") or "").replace("|", "/").replace("\n", " ")[:160]))
    print("done")


if __name__ == "__main__":
    main()
