#!/venv/bin/python
"""Run every property-preserving refactoring (benign/<id>-<n>/patch.diff, written by independent
sub-agents) against the related quick checks in a scratch worktree; every check must stay quiet."""
import json
import os
import re
import subprocess
import sys
import time

VERIF = os.path.dirname(os.path.dirname(os.path.abspath(__file__)))
BENIGN = os.path.join(VERIF, "benign")
RELATED = {"C02": ["C02", "C18", "C03", "C17"], "C09": ["C09", "C01", "C14"], "C17": ["C17", "C02"], "C03": ["C03", "C02", "C18"],
           "C01": ["C01", "C06", "C14", "C02", "C09"], "C10": ["C10", "C09"], "C06": ["C06", "C01", "C14", "C09"],
           "C14": ["C14", "C01", "C09", "C10"], "C18": ["C18", "C02", "C03", "C09"]}


def sh(*a, **k):
    return subprocess.run(list(a), capture_output=True, text=True, **k)


def main():
    only = [x for x in sys.argv[1:] if not x.startswith("--")]
    names = sorted(d for d in os.listdir(BENIGN) if os.path.isdir(os.path.join(BENIGN, d)) and (not only or d in only))
    head = sh("git", "-C", "/repo", "rev-parse", "--short", "HEAD").stdout.strip()
    for name in names:
        d = os.path.join(BENIGN, name)
        meta = json.load(open(os.path.join(d, "meta.json")))
        prop = meta["preserves_property"]
        wt = "/tmp/bx-%s-%d" % (name, os.getpid())
        sh("git", "-C", "/repo", "worktree", "add", "--detach", wt, "HEAD")
        try:
            ap = sh("git", "-C", wt, "apply", os.path.join(d, "patch.diff"))
            if ap.returncode != 0:
                meta["result"] = {"repo_head": head, "error": "patch does not apply"}
                json.dump(meta, open(os.path.join(d, "meta.json"), "w"), indent=1)
                print(name, "patch does not apply", flush=True)
                continue
            st = sh("/venv/bin/python", "-m", "pytest", "-q", "-p", "no:cacheprovider", "--timeout=120", cwd=wt, env=dict(os.environ, PYTHONPATH=wt))
            suite = st.stdout.strip().splitlines()[-1] if st.stdout.strip() else "?"
            res = []
            for c in [x for x in RELATED[prop] if x not in (meta.get("not_preserving_for") or {})]:
                env = dict(os.environ, VERIF_REPO=wt, VERIF_NO_EVIDENCE="1")
                env.pop("VERIF_REEXEC", None)
                t = time.time()
                p = sh(os.path.join(VERIF, "check"), c, "--tier", "quick", env=env, cwd=VERIF)
                viol = re.findall(r"^violation clause=(\S+ cause=\S+)", p.stdout, re.M)
                res.append({"check": c, "exit": p.returncode, "violations": viol, "wall_s": round(time.time() - t, 1),
                            "tail": p.stdout[-400:] if p.returncode == 2 else ""})
                print(name, c, "quiet" if p.returncode == 0 else "EXIT %d %s" % (p.returncode, viol), flush=True)
            meta["result"] = {"repo_head": head, "suite": re.sub(r", \d+ warnings.*", "", suite), "checks": res, "all_quiet": all(r["exit"] == 0 for r in res)}
            json.dump(meta, open(os.path.join(d, "meta.json"), "w"), indent=1)
        finally:
            sh("git", "-C", "/repo", "worktree", "remove", "--force", wt)
            sh("git", "-C", "/repo", "worktree", "prune")
    with open(os.path.join(BENIGN, "RESULTS.md"), "w") as f:
        f.write("# Property-preserving refactorings (independent sub-agents) vs. the quick checks: every check must stay quiet\n\n| refactoring | property | what | suite | checks run | result |\n|---|---|---|---|---|---|\n")
        for name in sorted(d for d in os.listdir(BENIGN) if os.path.isdir(os.path.join(BENIGN, d))):
            m = json.load(open(os.path.join(BENIGN, name, "meta.json")))
            r = m.get("result") or {}
            checks = r.get("checks") or []
            f.write("| %s | %s | %s | %s | %s | %s |\n" % (name, m["preserves_property"], (m.get("what") or "").replace("|", "/").replace("\n", " ")[:140], r.get("suite", r.get("error", "")),
                                                       ", ".join(c["check"] for c in checks), "all quiet" if r.get("all_quiet") else ("; ".join("%s exit %d %s" % (c["check"], c["exit"], c["violations"]) for c in checks if c["exit"] != 0) or r.get("error", "not run"))))
    print("done")


if __name__ == "__main__":
    main()
