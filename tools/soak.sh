#!/bin/bash
# usage: tools/soak.sh <tier> <seed-from> <seed-to> [IDs...]   ; prints one line per (property, seed); never writes evidence
TIER=$1; A=$2; B=$3; shift 3
IDS=${@:-C01 C02 C03 C06 C09 C10 C14 C17 C18}
cd "$(dirname "$0")/.."
for s in $(seq $A $B); do
  for p in $IDS; do
    out=$(VERIF_SEED=$s VERIF_NO_EVIDENCE=1 ./check $p --tier $TIER 2>&1); rc=$?
    echo "seed=$s $p exit=$rc $(echo "$out" | grep -E '^C[0-9]+ tier' | sed 's/.*runs=\([0-9]*\).*wall=\([0-9.]*\)s.*/runs=\1 wall=\2s/')"
    if [ $rc -ne 0 ]; then echo "$out" | grep -E "^(violation|  site|  msg|VIOLATION|HARNESS)" | cut -c1-500; fi
  done
done
