#!/bin/bash
# usage: tools/seedtest.sh <CHECK-ID> <patch.diff> [extra env...]
# applies the patch to /repo, runs the quick check, always reverts.
ID=$1; PATCH=$2; shift 2
cd /repo || exit 9
if ! git diff --quiet; then echo "/repo dirty"; exit 9; fi
git apply "$PATCH" || { echo "patch does not apply"; exit 9; }
trap 'git -C /repo checkout -- .' EXIT
cd /verif && env VERIF_NO_EVIDENCE=1 "$@" timeout 1800 ./check $ID --tier quick 2>&1 | grep -E "^(VIOLATION|OK|HARNESS|KNOWN|violation|  msg|  site|C[0-9]+ tier)" | cut -c1-400
echo "exit=${PIPESTATUS[0]}"
