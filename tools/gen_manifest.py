#!/venv/bin/python
"""Regenerates /verif/MANIFEST.json from the table below (claimed checks that exist under dst/props)."""
import json
import os
import subprocess

HERE = os.path.dirname(os.path.dirname(os.path.abspath(__file__)))
TECH = "deterministic simulation with fault injection: seeded scheduler + real code in the loop, ddmin-minimised replay files"

CHECKS = {
    "C02": ("exploration", "DESIGN.md section 3 (C02)",
            "Seeded simulation of generated programs under the real CallTracer (sys.setprofile): the scheduler decides every interleaving of calls and of "
            "start/next/send/throw/close/drop on live generator and coroutine frames, and injects logger faults; logged traces are compared with the ground truth the "
            "program records about itself (exactly-once, completion order, attribution, entry-time argument types - also for containers the program mutates in place later and for one object passed to several calls -, return absent iff exception, yield cover, no residue). "
            "Sampling of a very large schedule space, not a proof.",
            "Trusts CPython's profile events, the self-recording of the generated bodies (C-level appends), and get_type() for container shapes (inference is C04/C05, not claimed)."),
    "C18": ("exploration", "DESIGN.md section 3 (C18)",
            "Same simulated world with sampling rates {None,1,2,3,10,100} and the sampling RNG behind a seam: scripted draw sequences (biased to 'skipped first, sampled on a later "
            "resumption') and seeded real-RNG runs; oracle: every logged trace is a faithful description of one completed call, all/none under all-zero/all-nonzero scripts, no residue, "
            "binomial band on the traced fraction, in one long session and over hundreds of short sessions (a new tracer each).",
            "Scripted mode assumes the tracer draws through monkeytype.tracing.random.randrange (falls back to seeded global RNG if the seam is never consulted)."),
    "C03": ("exploration", "DESIGN.md section 3 (C03)",
            "The same generated workload is executed untraced and traced with fresh tripwire objects (attribute hooks, descriptors, container-protocol overrides, journaling "
            "__hash__/__eq__/__bool__/__repr__, metaclass hooks, standard-library containers wrapping user mappings, tripwires bound to module globals) under every single and sampled double fault in logger.log / logger.flush / type inspection, with and without a "
            "pre-installed profiler, for normal and exceptional exits of the traced block; a worker thread started inside the block and released (baton passing) after its exit must not be traced any more.",
            "Hook journals compare only objects created by the workload; BaseExceptions that are not Exceptions are not injected."),
    "C09": ("fault_enumeration", "DESIGN.md section 3 (C09)",
            "Real SQLiteStore on a real file driven by forked actor processes parked inside SQLite's progress handler: the scheduler decides which actor runs at every VM-step park "
            "point and injects statement aborts, SIGKILL, concurrent readers/writers (database is locked), disk-full (RLIMIT_FSIZE), reopen and clock jumps; every interruption point "
            "of small batches is enumerated; results are compared with a reference multiset model (count/match/distinct/modules/atomic/durable/liveness).",
            "No power-loss model (un-synced / reordered writes): what is under test is MonkeyType's transaction boundary, not SQLite's journal."),
    "C01": ("exploration", "DESIGN.md section 3 (C01)",
            "End-to-end simulated histories: generated program traced in 1..4 sessions (real tracer, real logger, real SQLite file, clock jumps, lossy faults in some runs), then the real "
            "CLI `stub`; every annotation in the emitted stub text is evaluated with the names the stub provides and every committed observed value must conform to it.",
            "Conformance oracle is an independent implementation of 'value belongs to annotation'; values whose trace was not acknowledged as committed are not judged."),
    "C06": ("exploration", "DESIGN.md section 3 (C06)",
            "Dict-heavy end-to-end histories with k in {0,1,2,3,10} (also changed between trace and stub time, visible only inside Config.cli_context(), or different in an enclosing tracing block): TypedDict nodes are scanned at three observation points of the running "
            "system - traces handed to the logger, committed rows, rendered stub classes.",
            "Rides on the C01 world; key-type/emptiness provenance is checked against the journaled value at that position."),
    "C10": ("exploration", "DESIGN.md section 3 (C10)",
            "Histories of trace -> code churn -> trace -> stub/apply: a churn injector rewrites the fixture package on disk between phases (modules, functions, classes removed or "
            "rebound to non-functions / non-types, parameters renamed, a module that still exists importing a removed sibling); the real CLI (SQLite store or a minimal custom store) is compared differentially with a twin database holding only the rows an independent "
            "decodability model says are decodable (output equality, skipped-count on stderr, exit status, 'no traces' message).",
            "Decodability model derived from the churn ops, not from MonkeyType; --limit kept above the row count."),
    "C14": ("exploration", "DESIGN.md section 3 (C14)",
            "One trace multiset delivered by K different histories (row permutations, duplications, batch/session/connection splits, clock values) and stubbed in fresh interpreters "
            "with pinned PYTHONHASHSEED, ASLR off and a layout salt; all stubs must have the same normal form (unions as sets).",
            "setarch -R availability for the layout dimension (dropped and reported if refused)."),
    "C17": ("exploration", "DESIGN.md section 3 (C17)",
            "Simulated `monkeytype run` of generated scripts (own __main__ functions, fixture, stdlib and site-packages calls) with default and custom filters, project modules whose names are contained in '__main__', and code objects compiled, freed and re-created at run time, plus the default filter "
            "under simulated deployment layouts (lib roots, symlinks, synthetic file names, allow-list env var, lru_cache histories) against an independent realpath oracle.",
            "Does not enumerate every installed code object (input enumeration, not simulation)."),
}

NA = {
    "C04": "pure function of a value multiset and k (get_type/shrink_types): no schedule, clock, fault or history in its statement; its end-to-end shadow is exercised inside C01/C14 but not claimed",
    "C05": "tightness of the inferred type is a pure function of the same input; nothing a schedule or fault could change",
    "C07": "rewriters are pure type->type functions; narrowing that reaches a stub is seen by C01, crashes by C10, but the property itself has no simulation dimension",
    "C08": "JSON codec round trip is a pure function; the store adds no state to it (C09 is checked at row level)",
    "C11": "translation validation over types x import contexts; pure function of the rendered type",
    "C12": "pure function of inspect.signature + traces (stub syntax / signature mirroring)",
    "C13": "pure function of (signature, traced types, strategy flag)",
    "C15": "pure function of (source text, stub text); the file read-modify-write of `apply` is not part of the stated property",
    "C16": "pure source-to-source transformation (--pep_563 import confinement)",
}


def main():
    checks = []
    for pid, (level, ref, text, note) in CHECKS.items():
        if not os.path.exists(os.path.join(HERE, "dst", "props", pid.lower() + ".py")):
            continue
        checks.append({
            "property_id": pid,
            "quick_cmd": "./check %s --tier quick" % pid,
            "thorough_cmd": "./check %s --tier thorough" % pid,
            "evidence_file": "/verif/evidence/%s.json" % pid,
            "replay_cmd_template": "./check %s --replay {path}" % pid,
            "engine": "dst",
            "level_claimed": {"category": level, "text": text, "design_ref": ref},
            "level_note": note,
            "technique": TECH,
        })
    na = [{"property_id": k, "reason": v} for k, v in NA.items()]
    for pid in CHECKS:
        if not any(c["property_id"] == pid for c in checks):
            na.append({"property_id": pid, "reason": "planned (DESIGN.md section 3) but its check is not built yet; not claimed until it is"})
    try:
        commits = subprocess.check_output(["git", "-C", "/repo", "log", "--format=%H %s", "1edaaae..HEAD"], text=True).strip().splitlines()
    except Exception:
        commits = []
    man = {
        "version": 1,
        "setup_cmd": "./check --selfcheck-env",
        "hooks": {
            "guard": "MONKEYTYPE_VERIF",
            "enable": "no guarded code exists in /repo: every seam the simulator needs is already a module attribute, an interface or a public attribute (DESIGN.md section 0); checks import monkeytype from /repo's working tree via PYTHONPATH",
            "baseline_off_cmd": "cd /repo && /venv/bin/python -m pytest -q -p no:cacheprovider --timeout=900",
            "source_commits": [c.split()[0] for c in commits],
            "add_only": True,
        },
        "engines": [{"name": "dst", "path": "/verif/dst", "serves_properties": [c["property_id"] for c in checks],
                     "kind_free_text": "deterministic simulator: seeded scheduler, generated self-recording programs, fault-injecting seams, forked SQLite actors, ddmin, replay"}],
        "checks": checks,
        "not_applicable": na,
        "notes": "source_commits are unguarded 'fix:' commits (genuine defects repaired), not hooks; see known_findings.jsonl and DESIGN.md section 7.",
    }
    with open(os.path.join(HERE, "MANIFEST.json"), "w") as f:
        json.dump(man, f, indent=1)
        f.write("\n")
    print("MANIFEST.json: %d checks, %d not_applicable" % (len(checks), len(na)))


if __name__ == "__main__":
    main()
