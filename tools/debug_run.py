#!/venv/bin/python
"""Debug helper: execute single run indices of a property in this process and dump the result.
usage: PYTHONHASHSEED=0 PYTHONPATH=/repo:/verif tools/debug_run.py C14 1504 [more indices executed first ...]"""
import json, os, sys
sys.path.insert(0, os.path.dirname(os.path.dirname(os.path.abspath(__file__))))
sys.path.insert(0, os.environ.get("VERIF_REPO", "/repo"))
import importlib
from dst.core import rng as R
pid = sys.argv[1]
prop = importlib.import_module("dst.props." + pid.lower())
if hasattr(prop, "worker_init"):
    prop.worker_init()
seed = int(os.environ.get("VERIF_SEED", "1"))
tier = os.environ.get("VERIF_TIER", "quick")
idx = [int(x) for x in sys.argv[2:]]
for i in idx:
    plan = prop.gen(R.run_rng(seed, prop.ID, i), i, tier)
    if os.environ.get("DEBUG_HOOK"):
        exec(open(os.environ["DEBUG_HOOK"]).read())
    res = prop.execute(plan)
    print(i, res.get("digest"), json.dumps(res.get("violations"))[:300])
