#!/usr/bin/env python3-vt
import json, sys, glob, jsonschema
man=json.load(open('/verif/MANIFEST.json'))
jsonschema.validate(man, json.load(open('/root/.vp/MANIFEST.schema.json')))
print('MANIFEST ok')
es=json.load(open('/root/.vp/EVIDENCE.schema.json'))
for c in man['checks']:
    try:
        ev=json.load(open(c['evidence_file']))
        jsonschema.validate(ev, es)
        assert ev['level']==c['level_claimed']['category'], 'level mismatch'
        print(c['property_id'],'evidence ok', ev['tier'], ev['coverage']['evaluations'], ev['coverage']['distinct_nontrivial'])
    except Exception as e:
        print(c['property_id'],'EVIDENCE PROBLEM', str(e)[:300])
ids=set()
for l in open('/verif/properties.jsonl'):
    ids.add(json.loads(l)['id'])
claimed={c['property_id'] for c in man['checks']}; na={n['property_id'] for n in man.get('not_applicable',[])}
print('unaccounted:', ids-claimed-na, 'overlap:', claimed&na)
