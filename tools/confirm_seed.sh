#!/bin/bash
# usage: tools/confirm_seed.sh <seed-dir> ; confirms (a) suite unchanged (b) demo fails with patch (c) demo passes without
# uses its own scratch worktree under /tmp and removes it afterwards
D=$(realpath $1); TAG=$(echo $D | tr '/' '_')
WT=/tmp/wtc$TAG
git -C /repo worktree add -q --detach $WT HEAD || exit 9
trap "git -C /repo worktree remove --force $WT; git -C /repo worktree prune" EXIT
cd $WT
PYTHONPATH=$WT timeout 300 /venv/bin/python $D/demo.py > /tmp/demo_clean$TAG.log 2>&1; C=$?
git apply $D/patch.diff || { echo "RESULT $D patch-does-not-apply"; exit 1; }
S=$(PYTHONPATH=$WT /venv/bin/python -m pytest -q -p no:cacheprovider --timeout=900 2>&1 | tail -1)
PYTHONPATH=$WT timeout 300 /venv/bin/python $D/demo.py > /tmp/demo_mut$TAG.log 2>&1; M=$?
echo "RESULT $D clean_demo_exit=$C mutated_demo_exit=$M suite='$S'"
rm -f /tmp/demo_clean$TAG.log /tmp/demo_mut$TAG.log
