"""Batch runner: seeded runs on forked workers, aggregation, known findings, minimisation,
replay files, evidence.  No threads anywhere (workers and props may fork actors).

A property module (dst/props/cXX.py) provides:
    ID, LEVEL, RULE, REAL, STUBBED, ASSUMPTIONS, DESIGN_REF
    n_runs(tier) -> int
    gen(rng, index, tier) -> plan                 (JSON-able; the complete op / fault list)
    execute(plan) -> result dict:
        violations: [{clause, cause, site, msg}], digest, sig, nontrivial (bool),
        faults {kind: n}, probes {name: n}, sim_days (float), evaluated (int)
    optional: shrink_hint(plan) -> list of JSON paths of deletable lists
              worker_init()
"""
import json
import os
import shutil
import signal
import sys
import time
import traceback
import faulthandler

from . import rng as R
from . import findings as F
from . import ddmin

VERIF = os.path.dirname(os.path.dirname(os.path.dirname(os.path.abspath(__file__))))
MAX_KEEP_PER_KEY = 2
MAX_KEYS = 40


def ncpu():
    try:
        n = len(os.sched_getaffinity(0))
    except Exception:
        n = os.cpu_count() or 1
    w = os.environ.get("VERIF_WORKERS")
    return max(1, int(w)) if w else max(1, min(16, n))


def scratch_root():
    base = "/dev/shm" if os.path.isdir("/dev/shm") and os.access("/dev/shm", os.W_OK) else None
    if base is None:
        import tempfile

        base = tempfile.gettempdir()
    return base


class HarnessError(Exception):
    pass


def vkey(v):
    return "%s|%s" % (v.get("clause"), v.get("cause"))


def safe_execute(prop, plan):
    """execute() with harness exceptions classified apart from violations."""
    try:
        res = prop.execute(plan)
    except HarnessError:
        raise
    except BaseException as e:  # noqa
        if isinstance(e, (KeyboardInterrupt, SystemExit)):
            raise
        return {
            "violations": [],
            "harness_error": "".join(traceback.format_exception(type(e), e, e.__traceback__))[-3000:],
            "digest": "harness-error",
            "nontrivial": False,
        }
    return res


def _worker(prop, tier, seed, j, W, n, outpath, budget_s):
    faulthandler.enable()
    faulthandler.dump_traceback_later(budget_s, exit=True)
    if hasattr(prop, "worker_init"):
        prop.worker_init()
    agg = {
        "evaluations": 0,
        "nontrivial": 0,
        "digests": [],
        "sigs": {},
        "faults": {},
        "probes": {},
        "sim_days": 0.0,
        "evaluated": 0,
        "viol_counts": {},
        "viol_keep": {},
        "harness_errors": [],
        "samples": [],
        "run_digests": {},
        "first": None,
        "last": None,
        "stats": {},
    }
    digs = set()
    sigs = set()
    keep_digests = bool(os.environ.get("VERIF_DIGEST_OUT"))
    # tools that only ask "is this (deliberately broken) tree detected?" may stop the batch at the first unexplained violation;
    # never set by the registered quick / thorough commands
    stop_path = os.path.join(os.path.dirname(outpath), "stop") if os.environ.get("VERIF_STOP_ON_VIOLATION") == "1" else None
    for i in range(j, n, W):
        if stop_path and (i // W) % 4 == 0 and os.path.exists(stop_path):
            break
        rng = R.run_rng(seed, prop.ID, i)
        try:
            plan = prop.gen(rng, i, tier)
        except Exception as e:
            agg["harness_errors"].append("gen run %d: %s" % (i, "".join(traceback.format_exception(type(e), e, e.__traceback__))[-2000:]))
            break
        res = safe_execute(prop, plan)
        agg["evaluations"] += 1
        if agg["first"] is None:
            agg["first"] = i
        agg["last"] = i
        if res.get("harness_error"):
            if len(agg["harness_errors"]) < 3:
                agg["harness_errors"].append("run %d: %s" % (i, res["harness_error"]))
            agg["harness_errors_n"] = agg.get("harness_errors_n", 0) + 1
            continue
        if keep_digests:
            agg["run_digests"][str(i)] = res.get("digest")
        if res.get("nontrivial"):
            agg["nontrivial"] += 1
            digs.add(R.derive("plan", json.dumps(plan, sort_keys=True, default=repr)) & 0xFFFFFFFFFFFF)
            if len(agg["samples"]) < 2 and j == 0:
                agg["samples"].append(plan)
        s = res.get("sig")
        if s is not None:
            sigs.add(s)
        for k, c in (res.get("faults") or {}).items():
            agg["faults"][k] = agg["faults"].get(k, 0) + c
        for k, c in (res.get("probes") or {}).items():
            agg["probes"][k] = agg["probes"].get(k, 0) + c
        for k, c in (res.get("stats") or {}).items():
            agg["stats"][k] = agg["stats"].get(k, 0) + c
        agg["sim_days"] += float(res.get("sim_days") or 0.0)
        agg["evaluated"] += int(res.get("evaluated") or 0)
        seen_keys = set()
        for v in res.get("violations") or []:
            k = vkey(v)
            if k in seen_keys:
                continue
            seen_keys.add(k)
            agg["viol_counts"][k] = agg["viol_counts"].get(k, 0) + 1
            if stop_path and v.get("cause") is None and not os.path.exists(stop_path):
                open(stop_path, "w").close()
            lst = agg["viol_keep"].setdefault(k, [])
            if len(lst) < MAX_KEEP_PER_KEY and len(agg["viol_keep"]) <= MAX_KEYS:
                lst.append({"run_index": i, "plan": plan, "violation": v, "digest": res.get("digest")})
    agg["digests"] = sorted(digs)
    agg["sigs"] = sorted(sigs)
    tmp = outpath + ".tmp"
    with open(tmp, "w") as f:
        json.dump(agg, f, default=repr)
    os.rename(tmp, outpath)
    faulthandler.cancel_dump_traceback_later()


def run_isolated(prop, plan, timeout=60):
    """Execute one plan in a forked child; returns result dict or {'harness_error':...}."""
    r, w = os.pipe()
    pid = os.fork()
    if pid == 0:
        os.close(r)
        code = 0
        try:
            faulthandler.dump_traceback_later(timeout, exit=True)
            if hasattr(prop, "worker_init"):
                prop.worker_init()
            res = safe_execute(prop, plan)
            data = json.dumps(res, default=repr).encode()
            with os.fdopen(w, "wb") as f:
                f.write(data)
        except BaseException:
            traceback.print_exc()
            code = 3
        finally:
            os._exit(code)
    os.close(w)
    chunks = []
    deadline = time.time() + timeout + 5
    import select

    with os.fdopen(r, "rb") as f:
        while True:
            left = deadline - time.time()
            if left <= 0:
                try:
                    os.kill(pid, signal.SIGKILL)
                except OSError:
                    pass
                break
            rl, _, _ = select.select([f], [], [], min(left, 1.0))
            if rl:
                b = os.read(f.fileno(), 1 << 16)
                if not b:
                    break
                chunks.append(b)
    try:
        os.waitpid(pid, 0)
    except OSError:
        pass
    try:
        return json.loads(b"".join(chunks).decode())
    except Exception:
        return {"violations": [], "harness_error": "isolated run produced no result", "digest": None}


def has_key(res, key):
    return any(vkey(v) == key for v in (res.get("violations") or []))


def minimise(prop, plan, key, budget_s=90):
    """ddmin over the deletable lists of the plan while the same (clause, cause) persists."""
    t0 = time.time()

    def still_fails(p):
        if time.time() - t0 > budget_s:
            return False
        res = run_isolated(prop, p, timeout=60)
        return has_key(res, key)

    hint = getattr(prop, "shrink_hint", None)
    best = ddmin.minimise_plan(plan, still_fails, hint, lambda: time.time() - t0 > budget_s)
    # property-specific narrowing (e.g. an enumeration reduced to the single failing point)
    narrow = getattr(prop, "narrow", None)
    if narrow:
        res = run_isolated(prop, best, timeout=120)
        for v in res.get("violations") or []:
            if vkey(v) == key:
                cand = narrow(best, v)
                if cand is not None and still_fails(cand):
                    best = cand
                break
    return best


def count_ops(prop, plan):
    f = getattr(prop, "count_ops", None)
    if f:
        try:
            return int(f(plan))
        except Exception:
            return -1
    return ddmin.count_elements(plan, getattr(prop, "shrink_hint", None))


def write_replay(prop, tier, seed, kept, minimised, key):
    d = os.path.join(VERIF, "replays")
    os.makedirs(d, exist_ok=True)
    res = run_isolated(prop, minimised, timeout=120)
    viol = None
    for v in res.get("violations") or []:
        if vkey(v) == key:
            viol = v
            break
    path = os.path.join(d, "%s-%d-%d-%s.json" % (prop.ID, seed, kept["run_index"], R.digest(key)[:6]))
    with open(path, "w") as f:
        json.dump(
            {
                "property": prop.ID,
                "tier": tier,
                "verif_seed": seed,
                "run_index": kept["run_index"],
                "plan": minimised,
                "violation": viol or kept["violation"],
                "event_digest": res.get("digest"),
                "ops_before_minimisation": count_ops(prop, kept["plan"]),
                "ops_after_minimisation": count_ops(prop, minimised),
            },
            f,
            indent=1,
            default=repr,
        )
    return path, viol is not None


def verify_replay_fresh(prop_id, path):
    """Replay in a fresh interpreter; True iff it reproduces (exit 1 + REPRODUCED line)."""
    import subprocess

    env = dict(os.environ)
    env.pop("VERIF_REEXEC", None)
    try:
        p = subprocess.run(
            [os.path.join(VERIF, "check"), prop_id, "--replay", path],
            env=env,
            capture_output=True,
            text=True,
            timeout=300,
        )
    except subprocess.TimeoutExpired:
        return False, "replay timed out"
    return (p.returncode == 1 and "REPRODUCED" in p.stdout), (p.stdout + p.stderr)[-2000:]


def replay(prop, path):
    with open(path) as f:
        rp = json.load(f)
    if hasattr(prop, "worker_init"):
        prop.worker_init()
    res = safe_execute(prop, rp["plan"])
    if res.get("harness_error"):
        print("HARNESS-ERROR during replay:\n" + res["harness_error"])
        return 2
    want = vkey(rp["violation"])
    known = F.load()
    got = [v for v in res.get("violations") or []]
    same = [v for v in got if vkey(v) == want]
    dig_ok = rp.get("event_digest") in (None, res.get("digest"))
    if same:
        v = same[0]
        print("REPRODUCED clause=%s cause=%s digest_match=%s" % (v.get("clause"), v.get("cause"), dig_ok))
        print("  site: %s" % json.dumps(v.get("site"), default=repr)[:600])
        print("  msg : %s" % str(v.get("msg"))[:600])
        if F.is_known(known, prop.ID, v):
            print("KNOWN-FINDING: property=%s %s" % (prop.ID, F.describe(known, prop.ID, v)))
            return 0
        print("VIOLATION property=%s replay=%s" % (prop.ID, path))
        return 1
    others = [v for v in got if not F.is_known(known, prop.ID, v)]
    if others:
        print("replay did not reproduce the recorded violation but found: %s" % vkey(others[0]))
        print("VIOLATION property=%s replay=%s" % (prop.ID, path))
        return 1
    print("NOT-REPRODUCED (the property holds on this replay)")
    return 0


def prune(obj, limit=6000):
    s = json.dumps(obj, default=repr)
    if len(s) <= limit:
        return obj
    return {"truncated_json": s[:limit] + "...", "full_length": len(s)}


def run_check(prop, tier, seed):
    t0 = time.time()
    n = prop.n_runs(tier)
    W = min(ncpu(), max(1, n))
    sdir = os.path.join(scratch_root(), "verif-run-%d" % os.getpid())
    os.makedirs(sdir, exist_ok=True)
    budget = int(os.environ.get("VERIF_BUDGET_S", "900" if tier == "quick" else "14400"))
    pids = {}
    try:
        for j in range(W):
            out = os.path.join(sdir, "w%d.json" % j)
            pid = os.fork()
            if pid == 0:
                code = 0
                try:
                    _worker(prop, tier, seed, j, W, n, out, budget)
                except BaseException:
                    traceback.print_exc()
                    code = 3
                finally:
                    sys.stdout.flush()
                    sys.stderr.flush()
                    os._exit(code)
            pids[pid] = (j, out)
        deadline = time.time() + budget + 30
        failed = []
        left = dict(pids)
        while left:
            pid, st = os.waitpid(-1, os.WNOHANG)
            if pid == 0:
                if time.time() > deadline:
                    for p in left:
                        try:
                            os.kill(p, signal.SIGKILL)
                        except OSError:
                            pass
                    failed.append("deadline exceeded; workers killed")
                    break
                time.sleep(0.05)
                continue
            if pid in left:
                j, out = left.pop(pid)
                if st != 0 or not os.path.exists(out):
                    failed.append("worker %d exited with status %r" % (j, st))
        aggs = []
        for pid, (j, out) in pids.items():
            if os.path.exists(out):
                with open(out) as f:
                    aggs.append(json.load(f))
    finally:
        shutil.rmtree(sdir, ignore_errors=True)
    return finish(prop, tier, seed, n, W, aggs, failed, t0)


def finish(prop, tier, seed, n, W, aggs, failed, t0):
    known = F.load()
    tot = {"evaluations": 0, "nontrivial": 0, "evaluated": 0, "sim_days": 0.0}
    digs, sigs = set(), set()
    faults, probes, counts, keep, stats = {}, {}, {}, {}, {}
    herrs, herr_n, samples = [], 0, []
    for a in aggs:
        for k in ("evaluations", "nontrivial", "evaluated"):
            tot[k] += a[k]
        tot["sim_days"] += a["sim_days"]
        digs.update(a["digests"])
        sigs.update(a["sigs"])
        for src, dst in ((a["faults"], faults), (a["probes"], probes), (a["viol_counts"], counts), (a.get("stats", {}), stats)):
            for k, c in src.items():
                dst[k] = dst.get(k, 0) + c
        for k, lst in a["viol_keep"].items():
            keep.setdefault(k, []).extend(lst)
        herrs.extend(a["harness_errors"])
        herr_n += a.get("harness_errors_n", 0)
        samples.extend(a["samples"])
    for k in keep:
        keep[k].sort(key=lambda e: e["run_index"])
    if os.environ.get("VERIF_DIGEST_OUT"):
        allr = {}
        for a in aggs:
            allr.update(a.get("run_digests") or {})
        with open(os.environ["VERIF_DIGEST_OUT"], "w") as f:
            json.dump(allr, f)

    known_lines, unknown_keys = [], []
    for k in sorted(counts):
        ex = keep.get(k, [None])[0]
        v = ex["violation"] if ex else {"clause": k.split("|")[0], "cause": k.split("|")[1]}
        if F.is_known(known, prop.ID, v):
            known_lines.append((k, F.describe(known, prop.ID, v), counts[k]))
        else:
            unknown_keys.append(k)

    exit_code = 0
    replay_paths = []
    out_lines = []
    for k in unknown_keys[:3]:
        ex = keep[k][0]
        try:
            mini = minimise(prop, ex["plan"], k)
        except Exception:
            traceback.print_exc()
            mini = ex["plan"]
        path, ok = write_replay(prop, tier, seed, ex, mini, k)
        if not ok:
            # minimised plan did not reproduce in isolation: fall back to the original plan
            path, ok = write_replay(prop, tier, seed, ex, ex["plan"], k)
        rep_ok, rep_out = verify_replay_fresh(prop.ID, path)
        v = ex["violation"]
        out_lines.append("violation clause=%s cause=%s runs=%d first_run=%d replay_verified=%s" % (v.get("clause"), v.get("cause"), counts[k], ex["run_index"], rep_ok))
        out_lines.append("  site: %s" % json.dumps(v.get("site"), default=repr)[:500])
        out_lines.append("  msg : %s" % str(v.get("msg"))[:500])
        if not rep_ok:
            out_lines.append("  (fresh-process replay output: %s)" % rep_out[-400:].replace("\n", " | "))
        out_lines.append("VIOLATION property=%s replay=%s" % (prop.ID, path))
        replay_paths.append(path)
        exit_code = 1
    for k in unknown_keys[3:]:
        out_lines.append("further violation class (not minimised): %s runs=%d" % (k, counts[k]))

    for k, what, c in known_lines:
        out_lines.append("KNOWN-FINDING: property=%s %s (met in %d runs)" % (prop.ID, what, c))

    wall = time.time() - t0
    harness_bad = bool(failed) or herr_n > 0 or bool(herrs)
    if tot["evaluations"] == 0 or tot["evaluated"] == 0:
        harness_bad = True
        failed.append("nothing could be evaluated")
    ev = {
        "property_id": prop.ID,
        "tier": tier,
        "seed": seed,
        "level": prop.LEVEL,
        "coverage": {
            "evaluations": tot["evaluations"],
            "distinct_nontrivial": len(digs),
            "rule": prop.RULE,
            "samples": [prune(getattr(prop, "sample_view", lambda p: p)(s)) for s in samples[:2]],
            "oracle_evaluations": tot["evaluated"],
            "runs_planned": n,
            "workers": W,
            "runs_per_hour": int(tot["evaluations"] / max(wall, 1e-6) * 3600),
            "seeds": {"verif_seed": seed, "first_run_index": 0, "last_run_index": n - 1, "derivation": "sha256(VERIF_SEED, property, run_index)"},
            "simulated_time_days": round(tot["sim_days"], 3),
            "faults_fired": dict(sorted(faults.items())),
            "distinct_interleavings": len(sigs),
            "probes": dict(sorted(probes.items())),
            "stats": dict(sorted(stats.items())),
            "real_components": prop.REAL,
            "stubbed_components": prop.STUBBED,
            "known_findings_matched": {what: c for _, what, c in known_lines},
            "violation_classes": {k: counts[k] for k in unknown_keys},
            "harness_errors": herr_n,
            "exhaustive": bool(getattr(prop, "EXHAUSTIVE", False)),
        },
        "assumptions": prop.ASSUMPTIONS,
        "wall_s": round(wall, 2),
        "violations": sum(counts[k] for k in unknown_keys),
    }
    extra = getattr(prop, "evidence_extra", None)
    if extra:
        try:
            ev["coverage"].update(extra(tier, ev["coverage"]))
        except Exception:
            traceback.print_exc()
    if os.environ.get("VERIF_NO_EVIDENCE") != "1":
        os.makedirs(os.path.join(VERIF, "evidence"), exist_ok=True)
        with open(os.path.join(VERIF, "evidence", prop.ID + ".json"), "w") as f:
            json.dump(ev, f, indent=1, default=repr)
            f.write("\n")

    print("%s tier=%s seed=%d runs=%d nontrivial_distinct=%d oracle_evals=%d interleavings=%d wall=%.1fs (%d runs/h)" % (
        prop.ID, tier, seed, tot["evaluations"], len(digs), tot["evaluated"], len(sigs), wall, ev["coverage"]["runs_per_hour"]))
    if faults:
        print("  faults fired: " + ", ".join("%s=%d" % kv for kv in sorted(faults.items())))
    if probes:
        print("  probes: " + ", ".join("%s=%d" % kv for kv in sorted(probes.items())))
    for line in out_lines:
        print(line)
    if exit_code == 1:
        return 1
    if harness_bad:
        print("HARNESS-ERROR property=%s: %s" % (prop.ID, "; ".join(failed) or "exceptions inside the harness"))
        for h in herrs[:3]:
            print(h)
        return 2
    print("OK property=%s held on everything explored" % prop.ID)
    return 0
