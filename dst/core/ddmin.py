"""Plan minimiser: delta debugging over every deletable list inside a JSON plan.

A property may give `shrink_hint(plan)` -> list of key names whose list values are deletable
(e.g. ["ops", "script", "batch"]); by default every list stored under a key named
"ops" / "script" / "batch" / "faults" / "sessions" is deletable, recursively.
"""
import copy

DEFAULT_KEYS = ("ops", "script", "batch", "faults", "sessions", "calls", "rows", "churn", "variants")


def _lists(obj, keys, path=()):
    """Yield paths of deletable lists (deepest last)."""
    if isinstance(obj, dict):
        for k, v in obj.items():
            if isinstance(v, list) and k in keys:
                yield path + (k,)
            yield from _lists(v, keys, path + (k,))
    elif isinstance(obj, list):
        for i, v in enumerate(obj):
            yield from _lists(v, keys, path + (i,))


def _get(obj, path):
    for p in path:
        obj = obj[p]
    return obj


def count_elements(plan, hint=None):
    keys = tuple(hint(plan)) if hint else DEFAULT_KEYS
    return sum(len(_get(plan, p)) for p in _lists(plan, keys))


def _ddmin_list(plan, path, test, out_of_time):
    """Classic ddmin on one list; returns the (possibly) reduced plan."""
    lst = _get(plan, path)
    n = 2
    while len(lst) >= 1 and not out_of_time():
        chunk = max(1, len(lst) // n)
        reduced = False
        i = 0
        while i < len(lst) and not out_of_time():
            cand_list = lst[:i] + lst[i + chunk:]
            cand = copy.deepcopy(plan)
            parent = _get(cand, path[:-1])
            parent[path[-1]] = copy.deepcopy(cand_list)
            if test(cand):
                plan = cand
                lst = _get(plan, path)
                reduced = True
                n = max(n - 1, 2)
            else:
                i += chunk
        if not reduced:
            if chunk == 1:
                break
            n = min(len(lst), n * 2)
    return plan


def minimise_plan(plan, test, hint=None, out_of_time=lambda: False):
    keys = tuple(hint(plan)) if hint else DEFAULT_KEYS
    changed = True
    rounds = 0
    while changed and rounds < 6 and not out_of_time():
        rounds += 1
        changed = False
        # outermost lists first (big wins), then inner ones
        paths = sorted(_lists(plan, keys), key=len)
        done = set()
        idx = 0
        while idx < len(paths) and not out_of_time():
            p = paths[idx]
            idx += 1
            try:
                before = len(_get(plan, p))
            except (KeyError, IndexError, TypeError):
                continue
            if before == 0 or p in done:
                continue
            new = _ddmin_list(plan, p, test, out_of_time)
            if new is not plan:
                after = len(_get(new, p))
                if after < before:
                    changed = True
                    plan = new
                    # paths may have shifted: recompute
                    paths = sorted(_lists(plan, keys), key=len)
                    done.add(p)
                    idx = 0
                    continue
            done.add(p)
    return plan
