"""Seed derivation: one integer (VERIF_SEED) decides everything.

run seed i of property P = H(VERIF_SEED, P, i); independent of the worker count.
"""
import hashlib
import random


def derive(*parts) -> int:
    h = hashlib.sha256(repr(parts).encode()).digest()
    return int.from_bytes(h[:8], "big")


def run_rng(verif_seed: int, prop: str, index: int) -> random.Random:
    return random.Random(derive(verif_seed, prop, index))


def digest(obj) -> str:
    """Canonical digest of a JSON-able object."""
    import json

    return hashlib.sha256(
        json.dumps(obj, sort_keys=True, separators=(",", ":"), default=repr).encode()
    ).hexdigest()[:24]
