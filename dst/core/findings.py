"""known_findings.jsonl matching.  Read-only at run time.

An entry {"property","clause","cause","status":"known","what"} explains a violation iff the
violation has the same clause and its cause classifier (computed next to the oracle, for the
failing *site*) equals the entry's cause.  status "fixed" entries are documentation only.
"""
import json
import os

PATH = os.path.join(os.path.dirname(os.path.dirname(os.path.dirname(os.path.abspath(__file__)))), "known_findings.jsonl")


def load():
    out = []
    if os.path.exists(PATH):
        with open(PATH) as f:
            for line in f:
                line = line.strip()
                if line and not line.startswith("#"):
                    out.append(json.loads(line))
    return out


def _match(known, prop_id, v):
    if not v.get("cause"):
        return None
    for e in known:
        if e.get("status") != "known":
            continue
        if e["property"] == prop_id and e["clause"] == v.get("clause") and e["cause"] == v.get("cause"):
            return e
    return None


def is_known(known, prop_id, v):
    return _match(known, prop_id, v) is not None


def describe(known, prop_id, v):
    e = _match(known, prop_id, v)
    return "%s [%s / %s]" % (e["what"], e["clause"], e["cause"]) if e else ""
