import importlib
import os
import sys
import traceback


def load_prop(pid):
    try:
        import monkeytype  # noqa: F401  (from VERIF_REPO's working tree)
    except BaseException:
        traceback.print_exc()
        print("HARNESS-ERROR: cannot import monkeytype from the tree under test")
        sys.exit(2)
    return importlib.import_module("dst.props." + pid.lower())


def main(argv):
    import warnings

    warnings.filterwarnings("ignore", message=".*was never awaited", category=RuntimeWarning)
    warnings.filterwarnings("ignore", category=DeprecationWarning)
    from . import runner

    if not argv or argv[0] in ("-h", "--help"):
        print(__doc__ or "usage: check <ID> --tier quick|thorough | --replay FILE")
        return 2
    if argv[0] == "--selfcheck-env":
        from . import envcheck

        return envcheck.main()
    if argv[0] == "--selftest":
        from dst.selftest import main as st

        return st.main(argv[1:])
    pid = argv[0].upper()
    tier = os.environ.get("VERIF_TIER") or "quick"
    replay = None
    i = 1
    while i < len(argv):
        if argv[i] == "--tier":
            tier = argv[i + 1]
            i += 2
        elif argv[i] == "--replay":
            replay = argv[i + 1]
            i += 2
        elif argv[i] == "--runs":
            os.environ["VERIF_RUNS"] = argv[i + 1]
            i += 2
        else:
            print("unknown argument", argv[i])
            return 2
    if tier not in ("quick", "thorough"):
        print("unknown tier", tier)
        return 2
    prop = load_prop(pid)
    if replay:
        return runner.replay(prop, replay)
    try:
        seed = int(os.environ.get("VERIF_SEED", "1"))
    except ValueError:
        seed = 1
    print("VERIF_SEED=%d property=%s tier=%s repo=%s" % (seed, pid, tier, os.environ.get("VERIF_REPO", "/repo")))
    sys.stdout.flush()
    try:
        return runner.run_check(prop, tier, seed)
    except SystemExit:
        raise
    except BaseException:
        traceback.print_exc()
        print("HARNESS-ERROR property=%s" % pid)
        return 2
