"""setup_cmd: verify that everything the checks need is present, offline."""
import os
import sys


def main():
    ok = True
    try:
        import monkeytype, libcst, mypy_extensions, sqlite3  # noqa

        print("monkeytype from", os.path.dirname(monkeytype.__file__), "sqlite", sqlite3.sqlite_version, "python", sys.version.split()[0])
    except Exception as e:
        print("import failure:", e)
        ok = False
    base = "/dev/shm" if os.access("/dev/shm", os.W_OK) else "/tmp"
    print("scratch base:", base)
    import shutil

    print("setarch:", shutil.which("setarch"))
    return 0 if ok else 2
