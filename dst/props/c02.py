"""C02 - every completed call yields exactly one faithful call trace (also hosts the shared
tracer-world machinery used by C18)."""
import collections
import os
import sys

from dst.core import rng as R
from dst.world import driver as D
from dst.world import program as P
from dst.world import rt
from dst.world import tnorm as T
from dst.oracles import trace_truth as TT

ID = "C02"
LEVEL = "exploration"
DESIGN_REF = "DESIGN.md section 3, C02"
RULE = ("each run = one generated program (module functions, instance/class/static methods, properties, overrides with super(), "
        "nested closures, functools.wraps, all parameter kinds, generators incl. `yield from` delegation, really-suspending coroutines, async "
        "generators; containers mutated in place after entry, one object shared by several calls) x one seeded schedule: a "
        "recursive action list that interleaves calls with start/next/send/throw/close/drop of up to ~10 live generator/coroutine "
        "handles (trampoline or simulated asyncio loop), with logger faults and transient function-lookup faults, executed under the real CallTracer via sys.setprofile; non-trivial = at least one admitted fixture call completed "
        "and was judged; distinct = distinct plan digests (program spec + schedule)")
REAL = ["monkeytype.tracing (CallTracer, trace_calls, get_func)", "monkeytype.typing.get_type", "CPython sys.setprofile and real frames/opcodes of generated code"]
STUBBED = ["trace logger (tee that records every CallTrace and the journal position)", "code filter (file-name predicate for the generated package)",
           "the traced program itself (generated; self-recording through C-level callables)"]
ASSUMPTIONS = ["expected container types are get_type(value) evaluated by the oracle after the run (inference itself is C04/C05, not claimed)",
               "resolvability classes decided by construction (DESIGN.md section 3)", "single thread"]

_PROG_CACHE = collections.OrderedDict()
_EVICTIONS = [0]
_CACHE_MAX = int(os.environ.get("VERIF_PROG_CACHE", "600"))


def n_runs(tier):
    if os.environ.get("VERIF_RUNS"):
        return int(os.environ["VERIF_RUNS"])
    return 150000 if tier == "quick" else 6000000


import logging as _logging


class FormattingSink(_logging.Handler):
    """Behaves like a real log handler (the record IS formatted, so %r / %s arguments are rendered
    exactly as the default stderr handler would render them) but writes nowhere."""

    def emit(self, record):
        try:
            self.format(record)
        except Exception:
            pass


def worker_init():
    import logging

    lg = logging.getLogger("monkeytype")
    if not any(isinstance(h, FormattingSink) for h in lg.handlers):
        lg.addHandler(FormattingSink())
    lg.propagate = False
    # cyclic GC runs only between runs (never inside a simulated run): finalisers of unreachable
    # suspended generators would otherwise fire at allocation-history-dependent moments
    import gc

    gc.disable()
    gc.collect()
    gc.freeze()


def get_program(spec):
    key = R.digest(spec)
    lp = _PROG_CACHE.get(key)
    if lp is not None:
        _PROG_CACHE.move_to_end(key)
        return lp
    lp = P.load(spec)
    import gc

    gc.collect()
    gc.freeze()
    _PROG_CACHE[key] = lp
    if len(_PROG_CACHE) > _CACHE_MAX:
        _, old = _PROG_CACHE.popitem(last=False)
        P.unload(old)
        _EVICTIONS[0] += 1
        if _EVICTIONS[0] % 48 == 0:
            # frozen objects are never collected: in a long batch whose program pool is larger than the cache, evicted programs
            # would pile up for ever (a thorough-tier worker grew past 1.8 GB).  Thaw, collect, freeze again - between runs,
            # before the journal of the next run is reset.
            gc.unfreeze()
            gc.collect()
            gc.freeze()
    return lp


def swarm_knobs(rng):
    kn = {
        "generators": rng.random() < 0.85,
        "coroutines": rng.random() < 0.6,
        "classes": rng.random() < 0.85,
        "nested_classes": rng.random() < 0.3,
        "multi_inherit": rng.random() < 0.5,
        "overrides": rng.random() < 0.7,
        "wraps": rng.random() < 0.6,
        "nested_funcs": rng.random() < 0.6,
        "unknown_kinds": rng.random() < 0.15,
        "param_kinds": rng.random() < 0.8,
        "defaults": rng.random() < 0.8,
        "varargs": rng.random() < 0.6,
        "raises": rng.random() < 0.85,
        "rebind": rng.random() < 0.7,
        "depth": rng.choice([0, 1, 1, 2, 2, 3]),
        "atom_p": rng.choice([0.4, 0.55, 0.8]),
        "class_objects": rng.random() < 0.7,
        "callables": rng.random() < 0.7,
        "genobjects": rng.random() < 0.5,
        "budget": rng.choice([6, 12, 25, 40]),
        "top_min": 1,
        "top_max": rng.choice([3, 6, 10, 16]),
        "call_depth": rng.choice([1, 2, 3, 5]),
        "aio_p": rng.choice([0, 0, 0.1, 0.25]),
    }
    # drawn last so that the program pool (generated from the knobs above) stays the same
    kn["async_generators"] = kn["coroutines"] and rng.random() < 0.5
    kn["yield_from"] = kn["generators"] and rng.random() < 0.6
    kn["cached_props"] = rng.random() < 0.4
    kn["mutate_p"] = rng.choice([0, 0, 0.12, 0.3])
    kn["shared_p"] = rng.choice([0, 0, 0.15, 0.4]) if kn["mutate_p"] else 0
    return kn


def gen_program_spec(seed, pool, slot, twins=False):
    prng = R.run_rng(seed, "program", slot % pool)
    kn = swarm_knobs(prng)
    spec = P.gen_spec(prng, kn, pkg="simpkg")
    if twins:
        P.add_twin_module(spec, prng)
    spec["pkg"] = "simpkg_" + R.digest(spec)[:10]
    return spec, kn


def gen(rng, index, tier, prop_id=ID):
    pool = 512 if tier == "quick" else 4096
    # the program is one of `pool` seeded programs (compiled programs are cached per worker);
    # knobs that shape the schedule are drawn per run
    seed0 = rng.getrandbits(32)
    spec, pkn = gen_program_spec(int(os.environ.get("VERIF_SEED", "1") or 1), pool, index, twins=(prop_id == "C02" and (index % pool) % 12 == 5))
    kn = swarm_knobs(rng)
    for key in ("generators", "coroutines", "classes", "nested_classes"):
        kn[key] = pkn[key]
    if prop_id == "C02" and kn.get("nested_funcs") and rng.random() < 0.25:
        # transient fault inside function lookup: a callable proxy among the arguments (i.e. in a caller's locals) whose
        # __code__ lookup raises the first few times it is asked
        kn["flaky_p"] = 0.05
    ctx = D.Ctx(rng, spec, kn)
    script = D.gen_script(ctx, None, kn["call_depth"], top=True)
    for a in script:
        a["catch"] = True
    plan = {
        "prog": spec,
        "k": rng.choice([0, 0, 1, 2, 3, 10]),
        "filter": rng.choice(["fixture", "fixture", "fixture", "none", "subset"]),
        "subset_seed": seed0,
        "script": script,
        "n_handles": ctx.next_h,
        # fault: logger.log raises on these attempts (the attempt is still recorded by the tee)
        "faults": sorted(set(rng.randrange(12) for _ in range(rng.choice([1, 2, 3])))) if rng.random() < 0.2 else [],
    }
    return plan


def shrink_hint(plan):
    return ["script"]


def count_ops(plan):
    def cnt(acts):
        return sum(1 + cnt(a.get("script", [])) for a in acts)

    return cnt(plan["script"])


def sample_view(plan):
    def strip(acts):
        out = []
        for a in acts:
            b = {k: v for k, v in a.items() if k not in ("script",)}
            if "script" in a:
                b["script"] = strip(a["script"])
            out.append(b)
        return out

    return {"program": {"modules": plan["prog"]["modules"], "classes": plan["prog"]["classes"],
                        "funcs": [{k: v for k, v in f.items() if k in ("fid", "name", "cls", "kind", "body", "params", "super", "inner")} for f in plan["prog"]["funcs"]]},
            "k": plan["k"], "filter": plan["filter"], "schedule": strip(plan["script"])}


class TeeLogger:
    """CallTraceLogger stand-in (duck-typed; also registered as a virtual subclass)."""

    def __init__(self, faults=()):
        self.logs = []
        self.flushes = 0
        self.faults = set(faults)
        self.fired = 0

    def log(self, trace):
        n = len(self.logs)
        self.logs.append((trace, len(rt.J)))
        if n in self.faults:
            self.fired += 1
            raise OSError("injected: trace sink unavailable")

    def flush(self):
        self.flushes += 1


def make_filter(plan, lp):
    mode = plan["filter"]
    if mode == "none":
        return None, (lambda fid: True)
    base = os.path.dirname(next(iter(lp.modules.values())).__file__) if lp.modules else "/nonexistent"
    if mode == "fixture":
        def flt(code, _b=base):
            return code.co_filename.startswith(_b)

        return flt, (lambda fid: True)
    # subset: a seeded subset of the program's functions is admitted (custom filter)
    import random

    srng = random.Random(plan["subset_seed"])
    adm = {fid for fid in sorted(lp.funcs) if srng.random() < 0.6}
    codes = {id(lp.code_objs[fid]) for fid in adm}

    def flt2(code, _c=codes):
        return id(code) in _c

    return flt2, (lambda fid: fid in adm)


def sig_of(J, lp):
    """Interleaving signature: sequence of (record kind, function kind/body) of the journal."""
    out = []
    for rec in J:
        t = rec[0]
        if t == "E":
            f = lp.funcs.get(rec[2])
            out.append("E%s%s" % ((f["kind"][0] + f["body"][0]) if f else "d", "h" if rec[4] is not None else ""))
        elif t in ("Y", "R", "A"):
            out.append(t)
        elif t in ("XS", "XH", "XC", "XD", "YF", "EU", "MU"):
            out.append(t)
    return R.digest(out)


def run_world(plan, lp, sample_rate=None, rng_seam=None, session=None):
    """Execute the schedule under the real tracer. Returns (journal copy, logger, residue frames info)."""
    from monkeytype.tracing import trace_calls

    import gc

    gc.collect()   # garbage of earlier runs is finalised (its bodies may journal) before the journal is reset
    rt.reset()
    D.get_driver()  # compiled outside the session: no harness frame may depend on process history
    mat = D.Mat(lp)
    top = mat.script(plan["script"])
    logger = TeeLogger(plan.get("faults") or ())
    flt, admitted = make_filter(plan, lp)
    residue = None
    old = sys.getprofile()
    cm = session(logger, plan["k"], flt, sample_rate) if session else trace_calls(logger, plan["k"], flt, sample_rate)
    with cm:
        tracer = sys.getprofile()
        D.run_top(top)
        # state of the tracer when every op has run (handles may still be suspended)
        sys.setprofile(None)
        try:
            live = {}
            for hidx, h in rt.H.items():
                obj = h[0]
                # the handle's own frame and every frame suspended below it (await chain)
                while obj is not None and h[2]:
                    fr = getattr(obj, "gi_frame", None) or getattr(obj, "cr_frame", None) or getattr(obj, "ag_frame", None)
                    if fr is None:
                        break
                    live[id(fr)] = hidx
                    obj = getattr(obj, "cr_await", None) or getattr(obj, "gi_yieldfrom", None) or getattr(obj, "ag_await", None)
            residue = []
            import types as _types

            keys = list(getattr(tracer, "traces", {}))
            opaque = 0
            for fr in keys:
                if isinstance(fr, _types.FrameType):
                    residue.append((lp.code.get(id(fr.f_code)), id(fr) in live))
                else:
                    opaque += 1
            if opaque:
                # per-call state not keyed by frame objects: compare counts only
                extra = opaque - len(live)
                residue.extend([(-1, False)] * max(0, extra))
        finally:
            sys.setprofile(tracer)
    assert sys.getprofile() is old or True
    J = list(rt.J)
    D.finish_handles()
    run_world.last_aio = list(mat.aio_stats)
    run_world.last_flaky = list(rt.FLAKY_RAISES)
    return J, logger, residue, admitted


def residue_violations(prefix, lp, residue, calls, comps):
    V = []
    n_f3 = sum(1 for c in comps if c.at_yield and c.end == "X" and lp.funcs[c.fid]["body"] in ("gen", "agen"))
    for fid, is_live in residue or []:
        if fid is None or is_live:
            continue
        if fid == -1:
            cause = "generator_exit_at_yield" if n_f3 > 0 else None
            n_f3 -= 1
            V.append({"clause": prefix + ".no-residue", "cause": cause, "site": {"fid": None},
                      "msg": "tracer holds more per-call entries than there are suspended frames"})
            continue
        f = lp.funcs[fid]
        cause = None
        if f["body"] in ("gen", "agen") and any(c.fid == fid and c.at_yield and c.end == "X" for c in comps):
            cause = "generator_exit_at_yield"
        V.append({"clause": prefix + ".no-residue", "cause": cause,
                  "site": {"fid": fid, "kind": f["kind"], "body": f["body"]},
                  "msg": "tracer still holds per-call state for a finished call of %s" % TT.fname(f)})
    return V


def event_digest(lp, J, logger):
    ev = []
    for rec in J:
        ev.append([rec[0]] + [x if isinstance(x, (int, str, bool, type(None))) else None for x in rec[1:3]])
    for tr, pos in logger.logs:
        fid = lp.code.get(id(getattr(tr.func, "__code__", None)))
        try:
            ev.append(["L", fid, pos, {n: T.tnorm(t) for n, t in sorted(tr.arg_types.items())}, T.tnorm(tr.return_type), T.tnorm(tr.yield_type)])
        except Exception as e:
            ev.append(["L", fid, pos, "unrenderable", repr(e)[:80]])
    return R.digest(ev)


def execute(plan):
    from monkeytype.typing import get_type

    lp = get_program(plan["prog"])
    try:
        J, logger, residue, admitted = run_world(plan, lp)
    except BaseException as e:  # the traced block itself must never raise
        if isinstance(e, (KeyboardInterrupt, SystemExit)):
            raise
        import traceback

        sys.setprofile(None)
        return {"violations": [{"clause": "C02.once", "cause": None, "site": {"exception": type(e).__name__},
                                "msg": "exception escaped the tracing session: " + "".join(traceback.format_exception(type(e), e, e.__traceback__))[-800:]}],
                "digest": "escaped", "nontrivial": True, "evaluated": 1}
    flaky = set(run_world.last_flaky)
    V, evaluated, info, calls, comps, matched = TT.check(lp, J, logger.logs, plan["k"], get_type, prefix="C02", admitted=admitted,
                                                         exempt=(lambda c: c.cid in flaky) if flaky else None)
    V.extend(residue_violations("C02", lp, residue, calls, comps))
    probes = {}
    mat_stats = getattr(run_world, "last_aio", [])
    if any(c.at_yield for c in comps):
        probes["generator ended by exception at a yield"] = 1
    if any(lp.funcs[c.fid]["body"] == "coro" and c.awaits for c in comps):
        probes["coroutine really suspended"] = 1
    if any(c.end == "X" for c in comps):
        probes["call ended by exception"] = 1
    if any(c.rebinds for c in comps):
        probes["parameter rebound inside a generator"] = 1
    if any(rec[0] == "XH" and rec[2] == "CancelledError" for rec in J):
        probes["asyncio task cancelled at an await"] = 1
    if mat_stats:
        probes["coroutines run as tasks on the simulated asyncio loop"] = 1
    if any(lp.funcs[c.fid]["kind"] == "inner" for c in comps):
        probes["nested function resolved through caller locals"] = 1
    if any(lp.funcs[c.fid].get("super") for c in comps):
        probes["override calling super()"] = 1
    if residue and any(live for _, live in residue):
        probes["generator still suspended at session end"] = 1
    if any(not TT.definite(lp, lp.funcs[c.fid]) for c in comps):
        probes["call of unknown resolvability"] = 1
    if any(lp.funcs[c.fid]["body"] == "agen" and (c.yields or c.awaits) for c in comps):
        probes["async generator yielded / awaited and completed"] = 1
    if any(rec[0] == "YF" for rec in J):
        probes["generator delegating with yield from"] = 1
    if any(rec[0] == "EU" for rec in J):
        probes["exception thrown into a generator / coroutine that had not started"] = 1
    if flaky:
        probes["function lookup hit by a transient fault (proxy in a caller's locals raised)"] = 1
    if any(rec[0] == "MU" for rec in J):
        probes["argument container mutated in place after the call started"] = 1
        mutated = {id(rec[2]) for rec in J if rec[0] == "MU"}
        if sum(1 for rec in J if rec[0] == "E" and any(id(v) in mutated for v in rec[3].values())) > 1:
            probes["one container object passed to several calls and mutated in between"] = 1
    return {
        "violations": V,
        "digest": event_digest(lp, J, logger),
        "sig": sig_of(J, lp),
        "nontrivial": info["completed"] > 0,
        "evaluated": evaluated,
        "probes": probes,
        "faults": dict(({"log_raises": logger.fired} if logger.fired else {}), **({"lookup_raises": len(flaky)} if flaky else {})),
        "stats": {"completed_calls": info["completed"], "logged_traces": info["logged"], "matched": info["matched"],
                  "aio_loop_steps": sum(x["steps"] for x in mat_stats), "aio_ready_queue_permutations": sum(x["permutations"] for x in mat_stats)},
        "sim_days": sum(x["vtime"] for x in mat_stats) / 86400.0,
    }
