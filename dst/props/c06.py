"""C06 - the TypedDict size limit is honoured end to end; zero disables TypedDicts."""
import collections
import json
import os

from dst.core import rng as R
from dst.props import c01, c02
from dst.world import e2e as E
from dst.oracles import stubeval as SE
from dst.oracles import tdscan as TD

ID = "C06"
LEVEL = "exploration"
DESIGN_REF = "DESIGN.md section 3, C06"
RULE = ("C01's end-to-end simulated histories with a dict-heavy value swarm (dicts of 0..12 keys; string / non-string / mixed keys; nested in every container kind; 1..4 "
        "sessions merged; lossy faults in a quarter of the runs) and k in {0,1,2,3,10}, in part of the runs changed between sessions and between trace and stub time. "
        "TypedDict nodes are scanned at three observation points: every CallTrace handed to the logger, every committed row, every TypedDict class of the rendered stub. "
        "non-trivial = at least one dict value was traced and scanned; distinct = distinct plan digests")
REAL = c01.REAL
STUBBED = c01.STUBBED
ASSUMPTIONS = ["the limit that governs a trace / row is the k of the session that recorded it; the limit that governs the stub is the k configured at stub time",
               "a base + NonTotal class pair in the stub counts as one TypedDict with the sum of their keys"]

worker_init = c02.worker_init
shrink_hint = c01.shrink_hint
count_ops = c01.count_ops
sample_view = c01.sample_view


def n_runs(tier):
    if os.environ.get("VERIF_RUNS"):
        return int(os.environ["VERIF_RUNS"])
    return 18000 if tier == "quick" else 600000


def gen(rng, index, tier):
    plan = c01.gen(rng, index, tier, dict_heavy=True, vary_k=rng.random() < 0.3)
    plan["rewriter"] = rng.choice(["noop", "default", "default", "config_dict"])
    plan["flag"] = rng.choice(["default", "ignore", "norewrite"])
    for ses in plan["sessions"]:
        if rng.random() < 0.06:
            # the session cannot even start cleanly: a Config hook other than the limit fails
            ses["faults"] = dict(ses.get("faults") or {}, cfg_raises=rng.choice(["sample_rate", "code_filter"]))
        if rng.random() < 0.12:
            ses["outer_k"] = rng.choice([x for x in (0, 1, 2, 3, 10, 10) if x != ses["k"]])
    if rng.random() < 0.3:
        # a deployment whose limit is configured during Config.cli_context(): outside the context the config still reports another value
        plan["k_decoy"] = rng.choice([x for x in (0, 1, 2, 3, 10, 10) if x != plan["k_stub"]])
    return plan


_DIRECT = __import__("re").compile(r"^(?:Optional\[)?'(\w+)'\]?$")


def _direct_names(src):
    m = _DIRECT.match(src.strip())
    return [m.group(1)] if m else []


def check(plan, r):
    V = []
    evaluated = 0
    probes = collections.Counter()
    dict_values = 0

    def viol(clause, cause, site, msg):
        V.append({"clause": clause, "cause": cause, "site": site, "msg": msg})

    # ---- observation point 1: traces handed to the logger
    day_k = {}
    for s in r.sessions:
        day_k.setdefault(s.day, set()).add(s.k)
        if not s.logger:
            continue
        tr2call = {id(tr): call for call, tr in s.matched}
        for tr, pos in s.logger.logs:
            call = tr2call.get(id(tr))
            items = [("arg:" + n, t) for n, t in tr.arg_types.items()] + [("return", tr.return_type), ("yield", tr.yield_type)]
            for where, t in items:
                nodes = TD.scan_type(t)
                if call is not None:
                    vals = [call.params.get(where[4:])] if where.startswith("arg:") else ([call.ret] if where == "return" else [v for _, v in call.yields])
                    ds = []
                    for v in vals:
                        TD.nested_dicts(v, ds)
                    dict_values += len(ds)
                else:
                    ds = None
                for req, opt in nodes:
                    evaluated += 1
                    n = len(req) + len(opt)
                    site = {"point": "trace", "where": where, "k": s.k, "keys": sorted(req) + sorted(opt), "func": getattr(tr.func, "__qualname__", "?")}
                    if s.k == 0:
                        viol("C06.trace", None, site, "TypedDict with keys %r in a trace recorded with limit 0" % (site["keys"],))
                    elif n > s.k or n == 0:
                        viol("C06.trace", None, site, "TypedDict with %d keys in a trace recorded with limit %d" % (n, s.k))
                    elif ds is not None and not TD.has_witness(req, opt, ds):
                        viol("C06.trace", None, site, "TypedDict %r inferred although no observed dict at that position is a non-empty all-string-key dict with those keys" % (site["keys"],))
    # ---- observation point 2: committed rows
    for row in r.rows:
        created, module, qualname, args_j, ret_j, yld_j = row
        try:
            day = (__import__("datetime").datetime.fromisoformat(created) - __import__("datetime").datetime(2024, 1, 1, 12, 0, 0)).days
        except Exception:
            day = None
        ks = day_k.get(day) or {s.k for s in r.sessions}
        kmax = max(ks)
        for where, js in (("args", args_j), ("return", ret_j), ("yield", yld_j)):
            if js is None:
                continue
            for req, opt in TD.scan_json(json.loads(js)):
                evaluated += 1
                n = len(req) + len(opt)
                site = {"point": "row", "where": where, "k": sorted(ks), "keys": req + opt, "func": qualname}
                if kmax == 0:
                    viol("C06.row", None, site, "stored row holds a TypedDict although the limit was 0")
                elif n > kmax or n == 0:
                    viol("C06.row", None, site, "stored row holds a TypedDict with %d keys, limit %d" % (n, kmax))
    # ---- observation point 3: rendered stub
    k = plan["k_stub"]
    lowered = any(s.k > k for s in r.sessions)
    for m, (rc, out, err, exc) in r.stubs.items():
        if exc is not None:
            probes["stub_crashed"] += 1
            continue
        if not out.strip():
            continue
        try:
            ps = SE.parse(out)
        except SyntaxError:
            probes["stub does not parse (C01's clause)"] += 1
            continue
        SE.build_namespace(ps, r.lp.modules[m])
        tds = {n: c for n, c in ps.ns.items() if isinstance(c, SE.StubTypedDict)}
        bases = {b.name for c in tds.values() for b in c.bases}
        # classes whose limit the stub generator re-applies on the unchanged tree: those that are
        # a position's whole annotation (or Optional of it), transitively through TypedDict fields
        direct = set()
        for fs in ps.functions.values():
            for src in list(fs["params"].values()) + ([fs["ret"]] if fs["ret"] else []):
                direct.update(_direct_names(src))
        todo = list(direct)
        while todo:
            n = todo.pop()
            c = tds.get(n)
            if c is None:
                continue
            for x in [c] + list(c.bases):
                if x.name not in direct:
                    direct.add(x.name)
                for fsrc in x.fields.values():
                    for nn in _direct_names(fsrc):
                        if nn not in direct:
                            direct.add(nn)
                            todo.append(nn)
        for n, c in tds.items():
            if n in bases:
                continue
            evaluated += 1
            nf = c.n_fields()
            site = {"point": "stub", "module": m, "class": n, "fields": nf, "k_stub": k, "k_sessions": [s.k for s in r.sessions]}
            cause = None
            if n in ps.dup_typed_dicts or any(b.name in ps.dup_typed_dicts for b in c.bases):
                cause = "typeddict_class_name_collision"
            elif lowered and n not in direct:
                cause = "limit_lowered_after_tracing_nested_in_container"
            if k == 0:
                viol("C06.stub", cause, site, "stub defines TypedDict class %s although the limit at stub time is 0" % n)
            elif nf > k or nf == 0:
                viol("C06.stub", cause, site, "stub TypedDict class %s has %d keys, limit at stub time %d" % (n, nf, k))
    if dict_values:
        probes["dict value traced"] += 1
    if lowered:
        probes["limit lowered between trace and stub time"] += 1
    if plan.get("k_decoy") is not None:
        probes["limit visible only inside Config.cli_context()"] += 1
    if any((ses.get("faults") or {}).get("cfg_raises") for ses in plan["sessions"]):
        probes["a Config hook raised while a session was starting"] += 1
    if any(ses.get("outer_k") is not None for ses in plan["sessions"]):
        probes["session nested inside a tracing block with another limit"] += 1
    return V, evaluated, probes, dict_values


def execute(plan):
    r = c01.run(plan)
    V, evaluated, probes, dict_values = check(plan, r)
    days = [s.day for s in r.sessions]
    return {
        "violations": V,
        "digest": c01.event_digest(plan, r),
        "sig": R.digest([[c02.sig_of(s.journal, r.lp), s.k] for s in r.sessions] + [plan["k_stub"]]),
        "nontrivial": dict_values > 0,
        "evaluated": evaluated + (1 if dict_values else 0),
        "faults": dict(c01.fired(r), **({"config_hook_raises_at_session_start": sum(1 for x in plan["sessions"] if (x.get("faults") or {}).get("cfg_raises"))}
                                        if any((x.get("faults") or {}).get("cfg_raises") for x in plan["sessions"]) else {})),
        "probes": dict(probes),
        "sim_days": (max(days) - min(days)) if days else 0,
        "stats": {"rows": len(r.rows), "dict_values_scanned": dict_values},
    }
