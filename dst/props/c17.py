"""C17 - only code the filter admits, outside __main__, is ever recorded."""
import collections
import importlib
import monkeytype.cli  # noqa: F401
import os
import pathlib
import shutil
import sys
import sysconfig
import types

from dst.core import rng as R
from dst.props import c01, c02
from dst.world import driver as D
from dst.world import e2e as E
from dst.world import program as P
from dst.world import rt
from dst.world import runslot
from dst.oracles import trace_truth as TT

ID = "C17"
LEVEL = "exploration"
DESIGN_REF = "DESIGN.md section 3, C17"
RULE = ("mode 'run': simulated `monkeytype run <script>` in-process - a generated script with its own __main__ functions calls a generated fixture package on disk "
        "(sometimes with a twin module: same source under two file names), pure-Python stdlib (json, textwrap) and site-packages (mypy_extensions) functions, under the "
        "default filter, the default filter with MONKEYTYPE_TRACE_MODULES allow-lists of 1..3 names, or a custom filter admitting a seeded subset; rows in the real "
        "SQLite store are compared with the filter model; the script also imports top-level modules named like substrings of '__main__' and compiles, calls and drops "
        "functions at run time (rejected synthetic / accepted real file names alternating). mode 'defcfg': 2..4 sessions through monkeytype.trace() without a config while the "
        "user's monkeytype_config module is absent / appears / is replaced between them. mode 'layout': the default filter is re-derived (monkeytype.config reloaded with sysconfig answering for a "
        "simulated deployment: stdlib / purelib / platlib roots, symlinks into and out of them, synthetic file names, relative paths, allow-lists) and queried with "
        "histories of code objects, including equal-but-not-identical ones, against an independent realpath oracle. non-trivial = at least one verdict / row was judged; "
        "distinct = distinct plan digests")
REAL = ["monkeytype.cli run handler (runpy)", "monkeytype.trace / tracing", "monkeytype.config.default_code_filter and LIB_PATHS derivation (module re-executed under the simulated sysconfig)",
        "monkeytype.db.base.CallTraceStoreLogger (__main__ rule)", "SQLite store on tmpfs", "real symlinks / directories on tmpfs"]
STUBBED = ["sysconfig.get_path (answers for the simulated layout)", "os.environ allow-list", "generated script and fixture package", "custom filters (seeded subsets)"]
ASSUMPTIONS = ["allow-list verdicts are judged only where the property is unambiguous (must-admit: file is m.py or lies in a package directory m/; must-reject: no path "
               "component and no stem equals a listed name)", "does not enumerate every installed code object"]

worker_init = c02.worker_init


def n_runs(tier):
    if os.environ.get("VERIF_RUNS"):
        return int(os.environ["VERIF_RUNS"])
    return 12000 if tier == "quick" else 400000


def shrink_hint(plan):
    return ["script", "queries", "sessions"]


def count_ops(plan):
    if plan["mode"] == "defcfg":
        return sum(c02.count_ops({"script": x["script"]}) for x in plan["sessions"])
    return c02.count_ops(plan) if plan["mode"] == "run" else len(plan["queries"])


def sample_view(plan):
    if plan["mode"] == "defcfg":
        return {"mode": "defcfg", "sessions": [{"config": x["config"], "ops": c02.count_ops({"script": x["script"]})} for x in plan["sessions"]]}
    if plan["mode"] == "run":
        v = c02.sample_view(dict(plan, k=0, filter="fixture"))
        v.update({k: plan[k] for k in ("filter", "allow")})
        return v
    return plan


ALLOW_NAMES = ["json", "textwrap", "mypy_extensions", "ma", "mb", "nosuchname", "src", "encoder"]


def gen(rng, index, tier):
    if index % 3 != 0:
        return gen_layout(rng)
    pool = 512 if tier == "quick" else 4096
    spec, pkn = c02.gen_program_spec(int(os.environ.get("VERIF_SEED", "1") or 1), pool, index, twins=rng.random() < 0.3)
    kn = c02.swarm_knobs(rng)
    for key in ("generators", "coroutines", "classes", "nested_classes"):
        kn[key] = pkn[key]
    kn["genobjects"] = False
    ctx = D.Ctx(rng, spec, kn)
    script = D.gen_script(ctx, None, kn["call_depth"], top=True)
    for a in script:
        a["catch"] = True
    if rng.random() < 0.12:
        # a long-lived process: several `with monkeytype.trace():` sessions (no explicit config); between them the user's
        # monkeytype_config module becomes importable / is replaced / goes away again
        sessions = []
        for _ in range(rng.choice([2, 3, 4])):
            ctx = D.Ctx(rng, spec, dict(kn, aio_p=0))
            sc = D.gen_script(ctx, None, kn["call_depth"], top=True)
            for a in sc:
                a["catch"] = True
            sessions.append({"script": sc, "config": rng.choice(["absent", "custom", "custom", "custom2"]), "subset_seed": rng.getrandbits(32)})
        return {"mode": "defcfg", "prog": spec, "sessions": sessions, "script": sessions[0]["script"]}
    flt = rng.choice(["default", "default", "allow", "allow", "custom", "custom"])
    allow = None
    if flt == "allow":
        allow = rng.sample(ALLOW_NAMES + [spec["pkg"]], rng.choice([1, 2, 3]))
    plan = {"mode": "run", "prog": spec, "script": script, "filter": flt, "allow": allow, "subset_seed": rng.getrandbits(32),
            "custom_admits_main": rng.random() < 0.5}
    r2 = rng
    # top-level project modules the script imports (names chosen among ones that are textually contained in "__main__")
    plan["top_modules"] = r2.sample(TOP_NAMES, r2.choice([0, 1, 2, 3]))
    plan["custom_admits_top"] = r2.random() < 0.5
    if plan["top_modules"] and flt == "allow" and r2.random() < 0.4:
        plan["allow"] = sorted(set(allow) | {r2.choice(plan["top_modules"])})
    # dynamic code churn inside the session: functions compiled at run time (template engines, dataclass-style exec, reloads), dropped and
    # re-created; code objects the filter rejects and ones it accepts are freed / allocated alternately
    if r2.random() < 0.4:
        plan["dyn"] = [[r2.choice(["acc", "rej", "rej"]), r2.randrange(len(DYN_VALUES))] for _ in range(r2.randint(2, 12))]
    return plan


TOP_NAMES = ["main", "ma", "a", "n", "mai", "in_", "topmod", "main_app"]
DYN_VALUES = [1, "s", 2.5, None, b"b", (1,), [1], True]
DYN_SRC = "def dyn(x):\n    y = (x, 1)\n    return y\n"
# same size, different constant: the two code objects must not compare equal (that would be the listed verdict-cache finding)
DYN_SRC_REJ = "def dyn(x):\n    y = (x, 2)\n    return y\n"


# ---------------------------------------------------------------------------------------------
# independent path oracle


def under(path, root):
    rp, rr = os.path.realpath(path), os.path.realpath(root)
    try:
        return os.path.commonpath([rp, rr]) == rr
    except ValueError:
        return False


def default_verdict(filename, lib_roots):
    """True / False: admitted by the default filter without an allow-list."""
    if not filename or filename[0] == "<":
        return False
    return not any(under(filename, r) for r in lib_roots)


def allow_verdict(filename, names):
    """True (must admit) / False (must reject) / None (not judged)."""
    if not filename or filename[0] == "<":
        return False
    rp = os.path.realpath(filename)
    parts = [p for p in rp.split(os.sep) if p]
    stem = os.path.splitext(parts[-1])[0] if parts else ""
    dirs = parts[:-1]
    if stem in names:
        return True
    if any(n in dirs for n in names):
        # lies in a directory named like a listed module: a package directory for sure only if it is
        # the top-level package directory or below it; the property says "listed module or package wherever installed"
        return True if any(os.path.exists(os.path.join(os.sep, *parts[: i + 1], "__init__.py")) for i, p in enumerate(dirs) if p in names) else None
    if not any(n in parts for n in names):
        return False
    return None


# ---------------------------------------------------------------------------------------------
# mode 'run'


TOP_SRC = '''\
def top_helper(x):
    return [x, "@NAME@"]


class TopThing:
    def method(self, y):
        return top_helper(y), "@NAME@"
'''

SCRIPT = '''\
import json
import sys
import textwrap
import mypy_extensions
from dst.world import runslot


def main_helper(x):
    return [x]


class MainThing:
    def method(self, y):
        return main_helper(y)


def top_modules():
    for name in runslot.SLOT.get("top_modules", ()):
        mod = __import__(name)
        mod.top_helper(1)
        mod.TopThing().method("s")


def dynamic_churn():
    spec = runslot.SLOT.get("dyn")
    if not spec:
        return
    for kind, val in spec["ops"]:
        ns = sys.modules[spec["module"]].__dict__ if kind == "acc" else {"__name__": "dynrej_verif"}
        exec(compile(spec["src"] if kind == "acc" else spec["src_rej"], spec["ok_file"] if kind == "acc" else "<dyn-rejected>", "exec"), ns)
        ns["dyn"](val)
        del ns["dyn"]
        del ns


def main_driver():
    main_helper(1)
    MainThing().method("s")
    json.dumps({"a": [1, 2]})
    textwrap.dedent("  x")
    mypy_extensions.trait(MainThing)
    dynamic_churn()
    top_modules()
    runslot.go()
    dynamic_churn()


main_driver()
'''


def execute_run(plan):
    import gc
    import monkeytype.config as MC
    from monkeytype.config import Config
    from monkeytype.db.base import CallTraceStoreLogger
    from monkeytype.db.sqlite import SQLiteStore
    from monkeytype.encoding import CallTraceRow
    from monkeytype.typing import get_type

    V = []
    probes = collections.Counter()

    def viol(clause, cause, site, msg):
        V.append({"clause": clause, "cause": cause, "site": site, "msg": msg})

    gc.collect()
    workdir = E.new_workdir()
    root = os.path.join(workdir, "src")
    os.makedirs(root)
    lp = P.load(plan["prog"], root)
    old_env = os.environ.get("MONKEYTYPE_TRACE_MODULES")
    evaluated = 0
    try:
        gc.collect()
        rt.reset()
        D.get_driver()
        mat = D.Mat(lp)
        runslot.SLOT["top"] = mat.script(plan["script"])
        script_path = os.path.join(workdir, "run_script.py")
        with open(script_path, "w") as fh:
            fh.write(SCRIPT)
        db = os.path.join(workdir, "traces.sqlite3")
        mode = plan["filter"]
        adm = None
        topdir = os.path.join(workdir, "top")
        os.makedirs(topdir)
        top_files = {}
        for name in plan.get("top_modules") or ():
            top_files[name] = os.path.join(topdir, name + ".py")
            with open(top_files[name], "w") as fh:
                fh.write(TOP_SRC.replace("@NAME@", name))   # distinct constants: code objects of different files must not compare equal
        runslot.SLOT["top_modules"] = list(plan.get("top_modules") or ())
        dyn_file = os.path.join(topdir, "dynmod_verif.py")
        if plan.get("dyn"):
            with open(dyn_file, "w") as fh:
                fh.write(DYN_SRC)
            dm = types.ModuleType("dynmod_verif")
            dm.__file__ = dyn_file
            sys.modules["dynmod_verif"] = dm
            runslot.SLOT["dyn"] = {"module": "dynmod_verif", "ok_file": dyn_file, "src": DYN_SRC, "src_rej": DYN_SRC_REJ, "ops": [[k, DYN_VALUES[i]] for k, i in plan["dyn"]]}
        sys.path.insert(0, topdir)
        importlib.invalidate_caches()
        if mode == "custom":
            import random

            srng = random.Random(plan["subset_seed"])
            adm = {fid for fid in sorted(lp.funcs) if srng.random() < 0.6}
            codes = {id(lp.code_objs[fid]) for fid in adm if fid in lp.code_objs}
            admits_main = plan["custom_admits_main"]

            top_ok = set(top_files.values()) if plan.get("custom_admits_top") else set()

            def flt(code, _c=codes, _sp=script_path, _m=admits_main, _t=frozenset(top_ok | {dyn_file})):
                return id(code) in _c or (_m and code.co_filename == _sp) or code.co_filename in _t

            admitted = lambda fid: fid in adm  # noqa: E731
        else:
            MC.default_code_filter.cache_clear()
            if mode == "allow":
                os.environ["MONKEYTYPE_TRACE_MODULES"] = ",".join(plan["allow"])
            else:
                os.environ.pop("MONKEYTYPE_TRACE_MODULES", None)
            flt = MC.default_code_filter
            lib_roots = [str(p) for p in MC.LIB_PATHS]

            def verdict_file(fn):
                return default_verdict(fn, lib_roots) if mode == "default" else allow_verdict(fn, plan["allow"])

            def admitted(fid):
                v = verdict_file(lp.code_objs[fid].co_filename)
                return bool(v)  # None (not judged) is handled below

        box = []

        class RunConfig(Config):
            def trace_store(self):
                return SQLiteStore.make_store(db)

            def trace_logger(self):
                lg = E.TeeStoreLogger(CallTraceStoreLogger(self.trace_store()), None)
                box.append(lg)
                return lg

            def code_filter(self):
                return flt

        from monkeytype import cli
        import io

        mod = types.ModuleType("simcfg_verif")
        mod.CONFIG = RunConfig()
        sys.modules["simcfg_verif"] = mod
        so, se = io.StringIO(), io.StringIO()
        exc = None
        try:
            rc = cli.main(["-c", "simcfg_verif:CONFIG", "run", script_path], so, se)
        except BaseException as e:  # noqa
            if isinstance(e, KeyboardInterrupt):
                raise
            import traceback

            exc = "".join(traceback.format_exception(type(e), e, e.__traceback__))[-800:]
            rc = None
        finally:
            sys.modules.pop("simcfg_verif", None)
            sys.setprofile(None)
        J = list(rt.J)
        D.finish_handles()
        if exc is not None:
            viol("C17.all-admitted", None, {"what": "run failed"}, "`monkeytype run` failed: " + exc)
        rows = E.raw_rows(db)
        rowset = {tuple(r[1:]) for r in rows}
        lg = box[0] if box else None
        # ---- rows: only admitted code, never __main__
        by_qual = {(lp.spec["pkg"] + "." + f["module"], E.qualname_of(lp, f)): fid for fid, f in lp.funcs.items()}
        for (module, qualname, a_j, r_j, y_j) in sorted(rowset, key=repr):
            evaluated += 1
            site = {"module": module, "qualname": qualname, "filter": mode, "allow": plan.get("allow")}
            if module == "__main__":
                viol("C17.only-admitted", None, site, "a function of __main__ was recorded: %s" % qualname)
                continue
            fid = by_qual.get((module, qualname))
            if fid is not None:
                if mode == "custom":
                    ok = fid in adm
                elif mode == "default":
                    ok = True
                else:
                    ok = allow_verdict(lp.code_objs[fid].co_filename, plan["allow"]) is not False
                if not ok:
                    # default / allow-list filter: verdicts are cached under code-object equality, so a
                    # twin whose own verdict differs inherits the verdict of the copy that was asked first
                    cause = None
                    partner = TT.twin_partner(lp, fid)
                    if mode != "custom" and partner is not None and partner in lp.code_objs and \
                            allow_verdict(lp.code_objs[partner].co_filename, plan["allow"]) is not False:
                        cause = "code_equality_ignores_filename"
                    viol("C17.only-admitted", cause, site, "row for %s.%s, which the configured filter rejects" % (module, qualname))
                continue
            # not a fixture function: decide from the file its code lives in
            fn = None
            try:
                obj = sys.modules.get(module)
                for part in qualname.split("."):
                    obj = getattr(obj, part)
                obj = getattr(obj, "__wrapped__", obj)
                fn = obj.__code__.co_filename
            except Exception:
                continue
            if mode == "custom":
                if not (fn in top_ok or fn == dyn_file):
                    viol("C17.only-admitted", None, dict(site, file=fn), "row for %s.%s, which the custom filter does not admit" % (module, qualname))
            elif mode == "default":
                if not default_verdict(fn, lib_roots):
                    viol("C17.only-admitted", None, dict(site, file=fn), "row for library code %s.%s (%s)" % (module, qualname, fn))
            else:
                if allow_verdict(fn, plan["allow"]) is False:
                    viol("C17.only-admitted", None, dict(site, file=fn), "row for %s.%s (%s), which is not in the allow-list %r" % (module, qualname, fn, plan["allow"]))
        # ---- library calls the script made must be recorded exactly when admitted
        lib_expect = {"json": "dumps", "textwrap": "dedent", "mypy_extensions": "trait"}
        for libmod, fname in lib_expect.items():
            fn = getattr(sys.modules[libmod], fname).__code__.co_filename
            have = any(r[0] == libmod and r[1] == fname for r in rowset)
            if mode == "default" or mode == "custom":
                want = False
            else:
                want = allow_verdict(fn, plan["allow"])
            if want is None:
                continue
            evaluated += 1
            if have and not want:
                pass  # already reported above
            if want and not have:
                viol("C17.all-admitted", None, {"module": libmod, "function": fname, "allow": plan.get("allow")},
                     "%s.%s is in the allow-list and was called, but has no row" % (libmod, fname))
        # ---- top-level project modules (whose names are contained in "__main__") and run-time compiled functions
        def file_verdict(fn):
            if mode == "custom":
                return fn in top_ok or fn == dyn_file
            if mode == "default":
                return default_verdict(fn, lib_roots)
            return allow_verdict(fn, plan["allow"])

        logged = collections.Counter((getattr(tr.func, "__module__", None), getattr(tr.func, "__qualname__", None)) for tr, pos in (lg.logs if lg else []))
        for name, fn in sorted(top_files.items()):
            want = file_verdict(fn)
            if want is None:
                continue
            for qn in ("top_helper", "TopThing.method"):
                evaluated += 1
                have = any(r[0] == name and r[1] == qn for r in rowset)
                if want and not have:
                    viol("C17.all-admitted", None, {"module": name, "function": qn, "filter": mode, "allow": plan.get("allow")},
                         "%s.%s (%s) is admitted by the filter, is not __main__ and was called, but has no row" % (name, qn, fn))
            probes["top-level module whose name is contained in '__main__'"] += 1 if name in "__main__" else 0
        if plan.get("dyn"):
            n_acc = 2 * sum(1 for k, i in plan["dyn"] if k == "acc")
            want = file_verdict(dyn_file)
            got = logged[("dynmod_verif", "dyn")]
            evaluated += 1
            if want is True and got != n_acc:
                viol("C17.all-admitted", None, {"function": "dynmod_verif.dyn", "filter": mode, "expected": n_acc, "logged": got},
                     "%d calls of run-time compiled functions that the filter admits completed, %d reached the logger" % (n_acc, got))
            if want is False and got:
                viol("C17.only-admitted", None, {"function": "dynmod_verif.dyn", "filter": mode, "logged": got},
                     "%d calls of run-time compiled functions the filter rejects reached the logger" % got)
            if logged[("dynrej_verif", "dyn")] or any(r[0] == "dynrej_verif" for r in rowset):
                viol("C17.only-admitted", None, {"function": "dynrej_verif.dyn", "filter": mode},
                     "a run-time compiled function with a synthetic file name, which the filter rejects, was recorded")
            probes["run-time compiled code objects created and freed inside the session"] += 1
        # ---- every admitted, resolvable, completed fixture call outside __main__ has its row
        if lg is not None:
            judged = lambda fid: (True if mode != "allow" else allow_verdict(lp.code_objs[fid].co_filename, plan["allow"]) is not None) if fid in lp.code_objs else False  # noqa: E731
            def actually_traced(fid, partner):
                # can the two copies of a twin be confused on the unchanged tree? Only through the default
                # filter's verdict cache (keyed by code equality), i.e. when their own verdicts differ.
                if mode == "custom":
                    return False
                a, b = verdict_file(lp.code_objs[fid].co_filename), verdict_file(lp.code_objs[partner].co_filename)
                return a != b

            actually_traced.takes_pair = True

            TVs, ev, info, calls, comps, matched = TT.check(lp, J, lg.logs, 0, get_type, prefix="C17", admitted=admitted, traced_pred=actually_traced)
            evaluated += len(comps)
            for v in TVs:
                fid = v["site"].get("fid")
                if fid is not None and not judged(fid):
                    continue
                if v["clause"] == "C17.once":
                    v["clause"] = "C17.all-admitted" if "was not logged" in v["msg"] else "C17.only-admitted"
                    V.append(v)
            for call, tr in matched:
                if TT.twin_conflict(lp, call.fid, actually_traced):
                    continue
                try:
                    r = CallTraceRow.from_trace(tr)
                except Exception:
                    continue
                evaluated += 1
                if (r.module, r.qualname, r.arg_types, r.return_type, r.yield_type) not in rowset:
                    viol("C17.all-admitted", None, {"fid": call.fid, "func": r.qualname}, "trace of admitted function %s.%s was logged but is not in the store" % (r.module, r.qualname))
        main_logged = sum(1 for tr, pos in (lg.logs if lg else []) if getattr(tr.func, "__module__", None) == "__main__")
        if main_logged:
            probes["__main__ function reached the logger and was dropped"] += 1
        if any(TT.twin_related(lp, fid) for fid in lp.funcs):
            probes["program with a twin module"] += 1
        return {
            "violations": V,
            "digest": R.digest([sorted((r[0], r[1]) for r in rowset), rc, bool(exc), mode, len(J)]),
            "sig": R.digest([c02.sig_of(J, lp), mode, plan.get("allow")]),
            "nontrivial": bool(rowset) or evaluated > 0,
            "evaluated": evaluated,
            "faults": {"filter_" + mode: 1},
            "probes": dict(probes),
            "stats": {"rows": len(rowset)},
        }
    finally:
        if old_env is None:
            os.environ.pop("MONKEYTYPE_TRACE_MODULES", None)
        else:
            os.environ["MONKEYTYPE_TRACE_MODULES"] = old_env
        try:
            import monkeytype.config as MC2

            MC2.default_code_filter.cache_clear()
        except Exception:
            pass
        P.unload(lp)
        runslot.SLOT.clear()
        try:
            sys.path.remove(os.path.join(workdir, "top"))
        except ValueError:
            pass
        for name in list(plan.get("top_modules") or ()) + ["dynmod_verif"]:
            sys.modules.pop(name, None)
        importlib.invalidate_caches()
        shutil.rmtree(workdir, ignore_errors=True)


# ---------------------------------------------------------------------------------------------
# mode 'layout'

LAYOUT_FILES = [
    "STD/json/encoder.py", "STD/os.py", "STD/site-packages/x.py", "PURE/requests/api.py", "PURE/six.py", "PURE/pkg/sub/deep/leaf.py", "PLAT/numpy/core.py",
    "PROJ/app/main.py", "PROJ/pkg/__init__.py", "PROJ/pkg/sub/deep/leaf.py", "PROJ/pkg/sub/__init__.py", "PROJ/lib/python3.12/notlib.py", "PROJ/site-packages/mine.py",
    "PROJ/json.py", "PROJ/requests/__init__.py", "LNK_PURE/requests/api.py", "LNK_STD/os.py", "PROJ/vendored/six.py", "PURE/editable/mod.py", "LNK_PROJ/app/main.py",
    "PROJ2/pkg/sub/deep/leaf.py", "PROJ/app/../app/main.py", "PURE/../site-packages/six.py",
    "PROJ/vendored_six.py", "PROJ/app/stdos.py", "PURE/mine_link.py",
    "PUREX/extra_mod.py", "STDX/dev_mod.py", "PUREX/pkg/__init__.py",
    "PROJ/pkgxsub.py", "PROJ/pkg_sub/leaf.py", "PROJ/appxmain.py", "PROJ/sixxpy.py",
]
SYNTHETIC = ["<string>", "<frozen importlib._bootstrap>", "", "<stdin>", "rel/x.py", "<doctest foo[0]>"]
LAYOUT_ALLOW = ["pkg", "requests", "six", "app", "leaf", "json", "deep", "main", "nosuch", "numpy", "sub", "CWDNAME",
                # dotted entries name no file or directory (the variable lists top-level names): they must not start matching by accident
                "pkg.sub", "app.main", "six.py"]


def gen_layout(rng):
    same_purelib_platlib = rng.random() < 0.5
    nq = rng.randint(4, 40)
    queries = []
    for qi in range(nq):
        # mostly distinct code objects; sometimes the same source as an earlier query (equal, not identical)
        src = rng.randrange(qi) if (qi and rng.random() < 0.2) else qi
        if rng.random() < 0.15:
            queries.append({"file": rng.choice(SYNTHETIC), "src": src})
        else:
            queries.append({"file": rng.choice(LAYOUT_FILES), "src": src})
    allow = rng.sample(LAYOUT_ALLOW, rng.choice([1, 2, 3])) if rng.random() < 0.45 else None
    if allow:
        allow = [os.path.basename(os.getcwd()) if a == "CWDNAME" else a for a in allow]
    return {"mode": "layout", "same_purelib_platlib": same_purelib_platlib, "queries": queries, "allow": allow,
            "std_is_symlink": rng.random() < 0.3, "trailing_slash": rng.random() < 0.3}


def build_layout(base, plan):
    std = os.path.join(base, "pyenv", "lib", "python3.12")
    pure = os.path.join(base, "venv", "lib", "python3.12", "site-packages")
    plat = pure if plan["same_purelib_platlib"] else os.path.join(base, "venv", "lib64", "python3.12", "site-packages")
    proj = os.path.join(base, "home", "proj")
    proj2 = os.path.join(base, "home", "proj2")
    for d in (std, pure, plat, proj, proj2):
        os.makedirs(d, exist_ok=True)
    for sub in ("json", "site-packages"):
        os.makedirs(os.path.join(std, sub), exist_ok=True)
    for sub in ("requests", "pkg/sub/deep", "vend"):
        os.makedirs(os.path.join(pure, sub), exist_ok=True)
    os.makedirs(os.path.join(plat, "numpy"), exist_ok=True)
    for sub in ("app", "pkg/sub/deep", "lib/python3.12", "site-packages", "requests", "pkg_sub"):
        os.makedirs(os.path.join(proj, sub), exist_ok=True)
    os.makedirs(os.path.join(proj2, "pkg/sub/deep"), exist_ok=True)
    for pk in ("pkg", "pkg/sub", "pkg/sub/deep", "requests"):
        open(os.path.join(proj, pk, "__init__.py"), "w").close()
        if os.path.isdir(os.path.join(pure, pk)):
            open(os.path.join(pure, pk, "__init__.py"), "w").close()
    for pk in ("pkg", "pkg/sub", "pkg/sub/deep"):
        open(os.path.join(proj2, pk, "__init__.py"), "w").close()
    open(os.path.join(std, "json", "__init__.py"), "w").close()
    open(os.path.join(plat, "numpy", "__init__.py"), "w").close()
    links = {
        "LNK_PURE": (os.path.join(base, "lnk_pure"), pure),
        "LNK_STD": (os.path.join(base, "lnk_std"), std),
        "LNK_PROJ": (os.path.join(base, "lnk_proj"), proj),
    }
    for name, (lnk, target) in links.items():
        os.symlink(target, lnk)
    for fn in (os.path.join(pure, "six.py"), os.path.join(std, "os.py"), os.path.join(proj, "app", "mine.py")):
        open(fn, "w").close()
    os.symlink(os.path.join(pure, "six.py"), os.path.join(proj, "vendored_six.py"))   # the FILE is a symlink into site-packages
    os.symlink(os.path.join(std, "os.py"), os.path.join(proj, "app", "stdos.py"))      # ... into the stdlib
    os.symlink(os.path.join(proj, "app", "mine.py"), os.path.join(pure, "mine_link.py"))  # site-packages file -> project file
    os.symlink(os.path.join(pure, "vend"), os.path.join(proj, "vendored"))         # project dir -> into site-packages
    os.symlink(os.path.join(proj, "pkg"), os.path.join(pure, "editable"))           # site-packages -> out to the project
    std_root = std
    if plan["std_is_symlink"]:
        std_root = os.path.join(base, "stdlink")
        os.symlink(std, std_root)
    # sibling directories whose names merely *start with* a library root's name (not inside it)
    purex, stdx = pure + "-extra", std + "-dev"
    os.makedirs(os.path.join(purex, "pkg"), exist_ok=True)
    os.makedirs(stdx, exist_ok=True)
    open(os.path.join(purex, "pkg", "__init__.py"), "w").close()
    roots = {"STD": std, "PURE": pure, "PLAT": plat, "PROJ": proj, "PROJ2": proj2, "PUREX": purex, "STDX": stdx,
             "LNK_PURE": links["LNK_PURE"][0], "LNK_STD": links["LNK_STD"][0], "LNK_PROJ": links["LNK_PROJ"][0]}
    answers = {"stdlib": std_root + ("/" if plan["trailing_slash"] else ""), "purelib": pure, "platlib": plat}
    return roots, answers, [std, pure, plat]


def make_code(filename, n):
    src = "def f(a):\n    return (a, %d)\n" % n
    code = compile(src, filename, "exec")
    return next(c for c in code.co_consts if isinstance(c, types.CodeType))


def execute_layout(plan):
    import monkeytype.config as MC

    V = []
    probes = collections.Counter()
    workdir = E.new_workdir()
    old_env = os.environ.get("MONKEYTYPE_TRACE_MODULES")
    real_get_path = sysconfig.get_path
    evaluated = 0
    log = []
    try:
        roots, answers, lib_roots = build_layout(workdir, plan)

        def fake_get_path(name, *a, **k):
            if name in answers and not a and not k.get("vars"):
                return answers[name]
            return real_get_path(name, *a, **k)

        sysconfig.get_path = fake_get_path
        try:
            importlib.reload(MC)   # the module's own LIB_PATHS derivation, for the simulated deployment
        finally:
            sysconfig.get_path = real_get_path
        if plan["allow"]:
            os.environ["MONKEYTYPE_TRACE_MODULES"] = ",".join(plan["allow"])
        else:
            os.environ.pop("MONKEYTYPE_TRACE_MODULES", None)
        MC.default_code_filter.cache_clear()
        seen = []   # (code, expected verdict)
        for qi, q in enumerate(plan["queries"]):
            f = q["file"]
            if "/" in f and f.split("/", 1)[0] in roots:
                head, rest = f.split("/", 1)
                filename = os.path.join(roots[head], rest)
            else:
                filename = f
            code = make_code(filename, q["src"])
            try:
                got = bool(MC.default_code_filter(code))
                err = None
            except Exception as e:
                got, err = None, repr(e)
            want = default_verdict(filename, lib_roots) if not plan["allow"] else allow_verdict(filename, plan["allow"])
            log.append([f, q["src"], got, want])
            if want is None:
                probes["allow-list verdict not judged (listed name is a non-package directory)"] += 1
                seen.append((code, None))
                continue
            evaluated += 1
            site = {"file": f, "allow": plan["allow"], "same_purelib_platlib": plan["same_purelib_platlib"], "query": qi}
            if err is not None:
                V.append({"clause": "C17.default-path", "cause": None, "site": site, "msg": "the filter raised %s for %s" % (err, f)})
            elif got != want:
                # is the wrong verdict explained by history alone (an equal-but-not-identical code object
                # was asked before and the verdict cache is keyed by code equality)?
                twin_before = False
                if any(c == code and c is not code for c, w in seen):
                    inner = getattr(MC.default_code_filter, "__wrapped__", None)
                    try:
                        twin_before = inner is not None and bool(inner(code)) == want
                    except Exception:
                        twin_before = False
                cause = "code_equality_ignores_filename" if twin_before else None
                clause = "C17.history-free" if twin_before else ("C17.allow-list" if plan["allow"] else "C17.default-path")
                V.append({"clause": clause, "cause": cause, "site": site,
                          "msg": "default_code_filter(%s) = %r, expected %r (lib roots %r, allow-list %r)" % (f, got, want, sorted(answers.values()), plan["allow"])})
            if any(c == code and c is not code for c, w in seen):
                probes["equal-but-not-identical code object queried"] += 1
            if os.path.realpath(filename) != os.path.abspath(filename):
                probes["file name reached through a symlink"] += 1
            seen.append((code, want))
        return {
            "violations": V,
            "digest": R.digest(log),
            "sig": R.digest([[x[0] for x in log], plan["allow"]]),
            "nontrivial": evaluated > 0,
            "evaluated": evaluated,
            "faults": {"layout_queries": len(plan["queries"]), "allow_list": 1 if plan["allow"] else 0},
            "probes": dict(probes),
        }
    finally:
        if old_env is None:
            os.environ.pop("MONKEYTYPE_TRACE_MODULES", None)
        else:
            os.environ["MONKEYTYPE_TRACE_MODULES"] = old_env
        sysconfig.get_path = real_get_path
        try:
            importlib.reload(MC)
        except Exception:
            pass
        shutil.rmtree(workdir, ignore_errors=True)


def execute_defcfg(plan):
    """Sessions entered through monkeytype.trace() without a config: each must use the configuration that
    get_default_config() finds *at that moment* - the user's monkeytype_config.CONFIG if importable, else DefaultConfig."""
    import gc
    import random
    import monkeytype
    import monkeytype.config as MC
    from monkeytype.config import Config
    from monkeytype.db.base import CallTraceStoreLogger
    from monkeytype.db.sqlite import SQLiteStore
    from monkeytype.typing import get_type

    V = []
    probes = collections.Counter()
    gc.collect()
    workdir = E.new_workdir()
    root = os.path.join(workdir, "src")
    os.makedirs(root)
    lp = P.load(plan["prog"], root)
    old_env = {k: os.environ.get(k) for k in ("MT_DB_PATH", "MONKEYTYPE_TRACE_MODULES")}
    os.environ["MT_DB_PATH"] = os.path.join(workdir, "default.sqlite3")
    os.environ.pop("MONKEYTYPE_TRACE_MODULES", None)
    MC.default_code_filter.cache_clear()
    evaluated = 0
    log = []
    try:
        def make_custom(tag, subset_seed):
            srng = random.Random(subset_seed)
            adm = {fid for fid in sorted(lp.funcs) if srng.random() < 0.6}
            codes = {id(lp.code_objs[fid]) for fid in adm if fid in lp.code_objs}
            box = []
            db = os.path.join(workdir, tag + ".sqlite3")

            class UserConfig(Config):
                def trace_store(self):
                    return SQLiteStore.make_store(db)

                def trace_logger(self):
                    lg = E.TeeStoreLogger(CallTraceStoreLogger(self.trace_store()), None)
                    box.append(lg)
                    return lg

                def code_filter(self):
                    return lambda code, _c=codes: id(code) in _c

            return UserConfig(), adm, box, db

        def distinct_rows(path):
            return {(r[1], r[2]) for r in E.raw_rows(path)}

        for si, ses in enumerate(plan["sessions"]):
            kind = ses["config"]
            sys.modules.pop("monkeytype_config", None)
            adm = box = None
            if kind != "absent":
                cfg, adm, box, cdb = make_custom(kind + str(si), ses["subset_seed"])
                m = types.ModuleType("monkeytype_config")
                m.CONFIG = cfg
                sys.modules["monkeytype_config"] = m
            gc.collect()
            rt.reset()
            D.get_driver()
            mat = D.Mat(lp)
            top = mat.script(ses["script"])
            before_default = distinct_rows(os.environ["MT_DB_PATH"])
            exc = None
            try:
                with monkeytype.trace():
                    D.run_top(top)
            except Exception as e:   # noqa
                exc = repr(e)
            finally:
                sys.setprofile(None)
            J = list(rt.J)
            D.finish_handles()
            after_default = distinct_rows(os.environ["MT_DB_PATH"])
            calls, order = TT.parse_journal(J)
            done = [c for c in order if c.fid != 0 and c.fid in lp.code_objs and not (c.at_yield and c.end == "X") and TT.definite(lp, lp.funcs[c.fid])]
            new_default = after_default - before_default
            evaluated += 1
            site = {"session": si, "config_in_effect": kind, "earlier": [x["config"] for x in plan["sessions"][:si]]}
            log.append([si, kind, exc is not None, len(done), sorted(new_default), len(box[0].logs) if box else None])
            if exc is not None:
                V.append({"clause": "C17.all-admitted", "cause": None, "site": site, "msg": "monkeytype.trace() failed: " + exc})
                continue
            if kind == "absent":
                # DefaultConfig: every completed resolvable fixture call (real files outside the library roots) is stored in the default database
                want = {(lp.spec["pkg"] + "." + lp.funcs[c.fid]["module"], E.qualname_of(lp, lp.funcs[c.fid])) for c in done}
                lost = want - after_default
                if lost:
                    V.append({"clause": "C17.all-admitted", "cause": None, "site": dict(site, missing=sorted(lost)[:3]),
                              "msg": "no user configuration is importable, yet %d traced functions did not reach the default store (e.g. %r)" % (len(lost), sorted(lost)[:1])})
            else:
                lg = box[0] if box else None
                if new_default:
                    V.append({"clause": "C17.only-admitted", "cause": None, "site": dict(site, rows=sorted(new_default)[:3]),
                              "msg": "monkeytype_config.CONFIG is importable, yet this session's calls were recorded through the default configuration: %r" % (sorted(new_default)[:2],)})
                if lg is None:
                    V.append({"clause": "C17.all-admitted", "cause": None, "site": site, "msg": "monkeytype_config.CONFIG is importable but its trace_logger() was never asked for"})
                else:
                    TVs, ev, info, calls2, comps, matched = TT.check(lp, J, lg.logs, 0, get_type, prefix="C17", admitted=lambda fid, _a=adm: fid in _a)
                    evaluated += len(comps)
                    for v in TVs:
                        if v["clause"] == "C17.once":
                            v["clause"] = "C17.all-admitted" if "was not logged" in v["msg"] else "C17.only-admitted"
                            v["site"] = dict(v["site"], **site)
                            V.append(v)
            probes["session through monkeytype.trace() with config %s after %s" % (kind, plan["sessions"][si - 1]["config"] if si else "nothing")] += 1
        return {"violations": V, "digest": R.digest(log), "sig": R.digest([[x["config"] for x in plan["sessions"]]]), "nontrivial": evaluated > 0,
                "evaluated": evaluated, "faults": {"config_change_between_sessions": len(plan["sessions"]) - 1}, "probes": dict(probes)}
    finally:
        sys.modules.pop("monkeytype_config", None)
        for k, v in old_env.items():
            if v is None:
                os.environ.pop(k, None)
            else:
                os.environ[k] = v
        MC.default_code_filter.cache_clear()
        P.unload(lp)
        shutil.rmtree(workdir, ignore_errors=True)


def execute(plan):
    if plan["mode"] == "run":
        return execute_run(plan)
    if plan["mode"] == "defcfg":
        return execute_defcfg(plan)
    return execute_layout(plan)
