"""C03 - tracing never changes what the traced program does."""
import os
import sys

from dst.core import rng as R
from dst.props import c02
from dst.world import driver as D
from dst.world import rt
from dst.world import tripwires as TW
from dst.oracles import trace_truth as TT

ID = "C03"
LEVEL = "exploration"
DESIGN_REF = "DESIGN.md section 3, C03"
RULE = ("each run executes one generated workload twice with fresh objects - untraced, then under trace_calls - with tripwire objects (attribute hooks, __class__ "
        "property, descriptors named like the called functions, list/dict/set/tuple/defaultdict subclasses with journaling protocol methods, journaling "
        "__hash__/__eq__/__bool__/__repr__, metaclass hooks, callable proxies bound to module globals) among arguments / returns / yields / caller locals, under a fault plan "
        "(logger.log raises on chosen attempts, flush raises, hooks raise when touched - permanently or only the first n times), a pre-installed profiler in {none, recorder, outer "
        "trace_calls}, the real CallTraceStoreLogger+SQLite behind the tee in a quarter of the runs, the program's own sys.setprofile(None), a worker thread outliving the block, and block exit in "
        "{normal, exception}. non-trivial = at least one traced call carried a tripwire or a fault fired; distinct = distinct plan digests")
REAL = c02.REAL + ["monkeytype.tracing.trace_calls context manager (profiler save/restore, flush)"]
STUBBED = c02.STUBBED + ["fault-injecting logger (log/flush raise on the scheduler's plan)", "tripwire objects (user code that journals when executed)"]
ASSUMPTIONS = ["hook journals cover objects the workload created; BaseExceptions that are not Exceptions are not injected", "code-filter failures are outside the property"]

worker_init = c02.worker_init
shrink_hint = c02.shrink_hint
count_ops = c02.count_ops


def n_runs(tier):
    if os.environ.get("VERIF_RUNS"):
        return int(os.environ["VERIF_RUNS"])
    return 60000 if tier == "quick" else 2000000


def fault_combos():
    """Every single and every double fault placement over {log attempt 0..5, flush, inspection} x
    pre-installed profiler x block exit."""
    import itertools

    sites = [("log", i) for i in range(6)] + [("flush", None), ("inspect", None)]
    combos = [(a,) for a in sites] + list(itertools.combinations(sites, 2))
    out = []
    for c in combos:
        for pre in ("none", "recorder", "outer"):
            for ex in ("normal", "exception"):
                out.append((c, pre, ex))
    return out


ENUM_WORKLOADS = 24


def gen(rng, index, tier):
    plan = gen_random(rng, index, tier)
    n_enum = len(fault_combos()) * (ENUM_WORKLOADS if tier == "thorough" else 2)
    if index < n_enum:
        combos = fault_combos()
        c, pre, ex = combos[index % len(combos)]
        faults = {"log": sorted(i for k, i in c if k == "log"), "flush": any(k == "flush" for k, _ in c), "inspect": any(k == "inspect" for k, _ in c)}
        plan["faults"] = faults
        plan["pre_profiler"] = pre
        plan["block_exit"] = ex
        plan["enumerated"] = True
    return plan


def gen_random(rng, index, tier):
    pool = 512 if tier == "quick" else 4096
    spec, pkn = c02.gen_program_spec(int(os.environ.get("VERIF_SEED", "1") or 1), pool, index)
    kn = c02.swarm_knobs(rng)
    for key in ("generators", "coroutines", "classes", "nested_classes"):
        kn[key] = pkn[key]
    kn["tw_p"] = rng.choice([0.15, 0.35, 0.6])
    kn["tw_kinds"] = rng.sample(TW.KINDS, rng.randint(2, len(TW.KINDS)))
    kn["_tw"] = [0]
    kn["rnd_p"] = rng.choice([0, 0.1, 0.25])
    ctx = D.Ctx(rng, spec, kn)
    script = D.gen_script(ctx, None, kn["call_depth"], top=True)
    for a in script:
        a["catch"] = True
    spec = dict(spec)
    if rng.random() < 0.3:
        cands = [f["fid"] for f in spec["funcs"] if not f.get("cls") and f["kind"] in ("func", "wrapped")]
        if cands:
            spec["proxied"] = sorted(rng.sample(cands, rng.randint(1, min(2, len(cands)))))
            spec["pkg"] = spec["pkg"] + "p" + "".join(map(str, spec["proxied"]))
    if rng.random() < 0.3:
        spec["global_tw"] = rng.sample(TW.GLOBAL_KINDS, rng.randint(1, 4))
        spec["pkg"] = spec["pkg"] + "g" + R.digest(spec["global_tw"])[:6]
    faults = {"log": [], "flush": False, "inspect": False}
    r = rng.random()
    if r < 0.65:
        nf = rng.choice([1, 1, 2])
        for _ in range(nf):
            k = rng.choice(["log", "log", "flush", "inspect"])
            if k == "log":
                faults["log"].append(rng.randrange(10))
            else:
                faults[k] = True
        faults["log"] = sorted(set(faults["log"]))
    plan = {
        "prog": spec,
        "k": rng.choice([0, 0, 1, 3, 10]),
        "filter": rng.choice(["fixture", "fixture", "none", "subset"]),
        "subset_seed": rng.getrandbits(32),
        "script": script,
        "faults": faults,
        "pre_profiler": rng.choice(["none", "none", "recorder", "outer"]),
        "block_exit": rng.choice(["normal", "normal", "exception"]),
    }
    if plan["pre_profiler"] == "recorder" and rng.random() < 0.4:
        plan["cm_early"] = True          # trace_calls(...) is called before the program installs its own profiler, entered afterwards
    if rng.random() < 0.25:
        plan["real_logger"] = True       # the real CallTraceStoreLogger + SQLiteStore behind the fault tee
    if faults["inspect"] and rng.random() < 0.5:
        faults["inspect"] = rng.choice([1, 1, 2, 3, 6])   # transient: only the first n hook invocations raise
    if rng.random() < 0.1 and len(script) > 1:
        # the program ends a profiled section of its own with sys.setprofile(None) somewhere inside the block
        script.insert(rng.randrange(1, len(script) + 1), {"a": "pyreset", "catch": True})
    if rng.random() < 0.15:
        # a worker thread started inside the traced block that outlives it: parked until the block has exited, then it runs fixture code
        kn2 = dict(kn, tw_p=0, rnd_p=0, aio_p=0, top_max=4, budget=8)
        ctx2 = D.Ctx(rng, spec, kn2)
        ts = D.gen_script(ctx2, None, 2, top=True)
        for a in ts:
            a["catch"] = True
        _shift_handles(ts, 500)
        plan["thread"] = {"script": ts}
    return plan


def _shift_handles(acts, off):
    for a in acts:
        if "h" in a:
            a["h"] += off
        for t in a.get("tasks") or ():
            t["h"] += off
            _shift_handles(t.get("script") or [], off)
        _shift_handles(a.get("script") or [], off)


def sample_view(plan):
    v = c02.sample_view(dict(plan, faults=[]))
    v.update({k: plan[k] for k in ("faults", "pre_profiler", "block_exit")})
    return v


class FaultLogger(c02.TeeLogger):
    """Tee with the fault plan; optionally in front of the real CallTraceStoreLogger on a real SQLite store."""

    def __init__(self, faults, inner=None):
        super().__init__(faults.get("log") or ())
        self.flush_raises = bool(faults.get("flush"))
        self.flush_fired = 0
        self.inner = inner

    def log(self, trace):
        super().log(trace)
        if self.inner is not None:
            self.inner.log(trace)

    def flush(self):
        self.flushes += 1
        if self.flush_raises:
            self.flush_fired += 1
            raise OSError("injected: flush failed (database is locked)")
        if self.inner is not None:
            self.inner.flush()


def real_store_logger(workdir):
    from monkeytype.db.base import CallTraceStoreLogger
    from monkeytype.db.sqlite import SQLiteStore

    return CallTraceStoreLogger(SQLiteStore.make_store(os.path.join(workdir, "c03.sqlite3")))


BUILTIN_ATOMS = (int, str, bool, float, bytes, type(None))


def summ(v, depth=0):
    t = type(v)
    if any(t is b for b in BUILTIN_ATOMS):
        return repr(v)
    oid = TW.oid_of(v) if t.__module__ == "dst.world.tripwires" else None
    if oid is not None:
        return "tw:%s:%s" % (t.__name__, oid)
    if depth > 4:
        return t.__name__
    if t is list or t is tuple:
        return [t.__name__] + [summ(x, depth + 1) for x in v]
    if t is set:
        return ["set"] + sorted((summ(x, depth + 1) for x in v), key=repr)
    if t is dict:
        return ["dict"] + [[summ(k, depth + 1), summ(x, depth + 1)] for k, x in v.items()]
    if isinstance(v, type):
        return "class:" + v.__name__
    if t.__name__ == "ChainMap":
        return ["ChainMap"] + [sorted(repr(k) for k in dict.keys(m)) if isinstance(m, dict) else type(m).__name__ for m in v.maps]
    return t.__name__


def journal_summary(J):
    out = []
    for rec in J:
        k = rec[0]
        if k == "E":
            out.append(["E", rec[1], rec[2], {n: summ(x) for n, x in rec[3].items()}, rec[4]])
        elif k in ("Y", "R"):
            out.append([k, rec[1], summ(rec[2])])
        elif k == "B":
            out.append([k, rec[1], rec[2], summ(rec[3])])
        elif k == "MU":
            out.append([k, rec[1], summ(rec[2]), summ(rec[3])])
        elif k == "EU":
            out.append([k, rec[1], getattr(rec[2][0], "__qualname__", "?"), [summ(x) for x in rec[2][1]], {n: summ(x) for n, x in rec[2][2].items()}])
        elif k == "RND":
            out.append([k, rec[1], repr(rec[2])])
        else:
            out.append([str(x) if not isinstance(x, (int, str, bool, type(None))) else x for x in rec])
    return out


def recorder_profiler():
    seen = [0]

    def rec(frame, event, arg):
        seen[0] += 1

    rec.seen = seen
    return rec


def run_once(plan, lp, traced):
    """One execution of the workload. Returns a dict of observations."""
    from monkeytype.tracing import trace_calls
    import gc

    import random as _rm

    gc.collect()   # garbage of earlier runs is finalised (its bodies may journal) before the journals are reset
    rt.reset()
    TW.reset()
    _rm.seed(plan.get("subset_seed", 0))   # the program's view of the global RNG must not depend on tracing
    D.get_driver()
    fnames = sorted({f["name"] for f in lp.funcs.values()})
    mat = D.Mat(lp, tw=TW.factory(fnames))
    top = mat.script(plan["script"])
    mat_hj = list(TW.HJ)  # hooks run while building values (dict keys etc.): identical in both executions
    faults = plan["faults"]
    inner = None
    workdir = None
    if plan.get("real_logger") and traced:
        from dst.world import e2e as _E

        workdir = _E.new_workdir()
        inner = real_store_logger(workdir)
    logger = FaultLogger(faults, inner)
    flt, admitted = c02.make_filter(plan, lp)
    obs = {"exc": None, "profiler_ok": True, "outer_flushes": None, "tracer": None}
    pre = plan["pre_profiler"]
    base_prof = sys.getprofile()
    outer_logger = None
    pre_obj = None

    import threading

    th = {"t": None, "gate": None, "prof": "not-run", "top": mat.script(plan["thread"]["script"]) if plan.get("thread") else None}
    obs["threading_prof_before"] = threading.getprofile() if hasattr(threading, "getprofile") else None

    def worker():
        th["gate"].acquire()          # parked until the traced block has exited
        th["prof"] = sys.getprofile()
        D.run_top(th["top"])

    def start_worker():
        if th["top"] is not None:
            th["gate"] = threading.Lock()
            th["gate"].acquire()
            th["t"] = threading.Thread(target=worker, daemon=True)
            th["t"].start()

    early = [None]

    def block():
        if traced:
            with (early[0] if early[0] is not None else trace_calls(logger, plan["k"], flt, None)):
                obs["tracer"] = sys.getprofile()
                D.run_top(top)
                start_worker()
                obs["hj_body_end"] = len(TW.HJ)
                if plan["block_exit"] == "exception":
                    raise rt.SimError("block")
        else:
            D.run_top(top)
            start_worker()
            obs["hj_body_end"] = len(TW.HJ)
            if plan["block_exit"] == "exception":
                raise rt.SimError("block")

    TW.ARMED[0] = faults.get("inspect") or False   # True: every hook raises; n: only the first n invocations
    try:
        try:
            if pre == "recorder":
                pre_obj = recorder_profiler()
                if traced and plan.get("cm_early"):
                    # the session is prepared first and entered later: the profiler in place *when the block is entered* must come back
                    early[0] = trace_calls(logger, plan["k"], flt, None)
                sys.setprofile(pre_obj)
                try:
                    block()
                finally:
                    obs["profiler_ok"] = sys.getprofile() is pre_obj
                    sys.setprofile(base_prof)
            elif pre == "outer" and traced:
                outer_logger = c02.TeeLogger()
                with trace_calls(outer_logger, 0, flt, None):
                    pre_obj = sys.getprofile()
                    try:
                        block()
                    finally:
                        obs["profiler_ok"] = sys.getprofile() is pre_obj
                obs["outer_flushes"] = outer_logger.flushes
            else:
                try:
                    block()
                finally:
                    obs["profiler_ok"] = sys.getprofile() is base_prof
        except BaseException as e:  # noqa
            if isinstance(e, (KeyboardInterrupt, SystemExit)):
                raise
            obs["exc"] = (type(e).__name__, str(e)[:80])
    finally:
        TW.ARMED[0] = False
        sys.setprofile(base_prof)
    obs["j_exit"] = len(rt.J)
    obs["logs_at_exit"] = len(logger.logs)
    obs["threading_prof_after"] = threading.getprofile() if hasattr(threading, "getprofile") else None
    if th["t"] is not None:
        # baton passing: the worker runs only while this thread waits in join()
        th["gate"].release()
        th["t"].join(20)
        if th["t"].is_alive():
            raise RuntimeError("harness: worker thread did not finish")
        obs["thread_prof"] = th["prof"]
    obs["hj"] = list(TW.HJ)[len(mat_hj):]  # snapshot before the harness itself looks at any value
    obs["hj_body"] = (obs["hj_body_end"] if obs.get("hj_body_end") is not None else len(TW.HJ)) - len(mat_hj)
    obs["last_raise"] = TW.LAST_RAISE[0]
    obs["reset_at"] = mat.notes.get("reset_at")
    if inner is not None:
        try:
            inner.store.conn.close()
        except Exception:
            pass
    if workdir is not None:
        import shutil

        shutil.rmtree(workdir, ignore_errors=True)
    obs["journal"] = list(rt.J)
    obs["summary"] = journal_summary(rt.J)
    obs["mat_hj"] = mat_hj
    obs["logger"] = logger
    obs["admitted"] = admitted
    D.finish_handles()
    return obs


_CONTAINERS = (list, tuple, set, dict, frozenset)


def _meta_nested(v, depth=0):
    """MI (instance or class) inside a builtin container, or the class object MI itself: get_type builds a
    typing object over the class (List[MI], Type[MI], ...), which hashes it."""
    if v is TW.MI:
        return True
    t = type(v)
    if depth > 6 or not any(t is c for c in _CONTAINERS) and t.__name__ != "defaultdict":
        return False
    if t is dict or t.__name__ == "defaultdict":
        return any(type(k) is TW.MI or _meta_nested(k, depth + 1) or type(x) is TW.MI or _meta_nested(x, depth + 1) for k, x in dict.items(v))
    return any(type(x) is TW.MI or _meta_nested(x, depth + 1) for x in v)


def meta_hooks_explained(journal, lp):
    """Where the unchanged tree can reach a user metaclass's __hash__/__eq__ (known finding F6c): the class sits inside a
    typing object the tracer builds (container element, Type[C], a Union of yield types), or an instance / the class is the
    first positional argument of a call, which function lookup hands to inspect.getattr_static (hashes the MRO).  An
    instance that is only ever a non-first top-level argument or a top-level return value is typed as `type(obj)` and
    nothing hashes or compares the class: metaclass hooks in such a run have no listed explanation."""
    for rec in journal:
        k = rec[0]
        if k == "E":
            f = lp.funcs.get(rec[2])
            first = None
            if f and f["params"] and f["params"][0]["k"] in ("po", "pk"):
                first = f["params"][0]["n"]
            for n, x in rec[3].items():
                if _meta_nested(x) or (type(x) is TW.MI and (n == first or f is None)):
                    return True
        elif k == "R":
            if _meta_nested(rec[2]):
                return True
        elif k == "Y":
            if type(rec[2]) is TW.MI or _meta_nested(rec[2]):
                return True
        elif k == "B":
            if type(rec[3]) is TW.MI or _meta_nested(rec[3]):
                return True
        elif k == "EU":
            # arguments of a generator / coroutine into which an exception was thrown before it started
            vals = list(rec[2][1]) + list(rec[2][2].values())
            if any(_meta_nested(x) for x in vals) or (rec[2][1] and type(rec[2][1][0]) is TW.MI) or (not rec[2][1] and any(type(x) is TW.MI for x in vals)):
                return True
        elif k == "MU":
            # the container as it was before an in-place mutation (what the tracer saw at entry)
            if _meta_nested(rec[3]) or _meta_nested(rec[2]):
                return True
    return False


def classify_hook(entry, meta_explained=True):
    """Cause classifier for one hook invocation the tracer caused (known findings F6)."""
    oid, hook, detail = entry
    if hook in ("GA.__getattribute__", "CP.__class__") and (detail in ("__class__", None)):
        # oids from 8000 are the tripwires bound to module globals (both entries are 'fixed': they document, they suppress nothing)
        return "class_attr_read_by_globals_scan" if isinstance(oid, int) and 8000 <= oid < 9000 else "class_attr_read_by_isinstance"
    if hook in ("CG.__getattr__", "CallProxy.__getattr__") and detail in ("__code__", "__wrapped__"):
        return "has_code_getattr_on_callable"
    if hook == "GA.__getattribute__" and detail in ("__code__", "__wrapped__"):
        # a GA object is not callable: _has_code is reached for it only as a class found in globals... never
        return None
    if hook in ("Meta.__eq__", "Meta.__hash__") and meta_explained:
        return "metaclass_eq_hash_via_typing"
    return None


def multiset_extra(a, b):
    """Entries of b (traced) that a (untraced) does not account for, in order."""
    import collections

    cnt = collections.Counter(a)
    out = []
    for e in b:
        if cnt[e] > 0:
            cnt[e] -= 1
        else:
            out.append(e)
    missing = list(cnt.elements())
    return out, missing


def execute(plan):
    from monkeytype.typing import get_type

    lp = c02.get_program(plan["prog"])
    A = run_once(plan, lp, traced=False)
    B = run_once(plan, lp, traced=True)
    V = []
    faults = plan["faults"]
    evaluated = 0

    def viol(clause, cause, site, msg):
        V.append({"clause": clause, "cause": cause, "site": site, "msg": msg})

    # --- same-result
    evaluated += 1
    if A["summary"] != B["summary"]:
        idx = next((i for i, (x, y) in enumerate(zip(A["summary"], B["summary"])) if x != y), min(len(A["summary"]), len(B["summary"])))
        viol("C03.same-result", None, {"journal_index": idx},
             "program behaviour differs with tracing at journal record %d: untraced %r, traced %r" % (
                 idx, A["summary"][idx:idx + 1], B["summary"][idx:idx + 1]))
    # --- contained / exit exception
    evaluated += 1
    if A["exc"] != B["exc"]:
        cause = None
        if faults.get("flush") and B["exc"] and B["exc"][0] == "OSError" and "injected: flush" in B["exc"][1]:
            cause = "flush_exception_escapes"
        viol("C03.contained", cause, {"untraced_exit": A["exc"], "traced_exit": B["exc"], "faults": faults},
             "the traced block exits with %r, the untraced one with %r" % (B["exc"], A["exc"]))
    # --- no-user-code
    evaluated += 1
    extra, missing = multiset_extra(A["hj"][:A["hj_body"]], B["hj"][:B["hj_body"]])
    extra_exit, missing_exit = multiset_extra(A["hj"][A["hj_body"]:], B["hj"][B["hj_body"]:])
    missing = missing + missing_exit
    if A["mat_hj"] != B["mat_hj"]:
        extra = extra + [("materialisation", "differs", None)]
    seen_causes = set()
    # hooks that ran while the context was exiting (flush -> serialisation of the logged traces by the real store logger): the
    # listed metaclass finding covers the membership test on typing aliases there, whatever position the class was traced at
    for e in extra_exit:
        cause = classify_hook(e, bool(plan.get("real_logger")))
        key = ("exit", cause, e[1] if cause is None else None)
        if key in seen_causes:
            continue
        seen_causes.add(key)
        viol("C03.no-user-code", cause, {"hook": e[1], "detail": e[2], "oid": e[0], "phase": "context exit"},
             "the tracer executed user code while the context exited: %s(%s) ran only in the traced execution" % (e[1], e[2]))
    # without a code filter the tracer also types the arguments of the simulator's own frames, which carry every materialised value
    meta_explained = True if plan["filter"] == "none" or "MIcls" in (plan["prog"].get("global_tw") or ()) or not any(e[1].startswith("Meta.") for e in extra) else meta_hooks_explained(B["journal"], lp)
    for e in extra:
        cause = classify_hook(e, meta_explained)
        key = (cause, e[1] if cause is None else None)
        if key in seen_causes:
            continue
        seen_causes.add(key)
        viol("C03.no-user-code", cause, {"hook": e[1], "detail": e[2], "oid": e[0]},
             "the tracer executed user code: %s(%s) ran only in the traced execution (%d such invocations in total)" % (e[1], e[2], len(extra)))
    if missing:
        viol("C03.no-user-code", None, {"missing": missing[:3]}, "hook invocations of the untraced execution are absent from the traced one: %r" % (missing[:3],))
    # --- profiler restored
    evaluated += 1
    if not B["profiler_ok"]:
        viol("C03.profiler-restored", None, {"pre_profiler": plan["pre_profiler"], "block_exit": plan["block_exit"], "faults": faults},
             "after the tracing context exited, sys.getprofile() is not the previously installed profiler")
    if not A["profiler_ok"] and A["reset_at"] is None:
        # (with its own sys.setprofile(None) the untraced program legitimately ends without the pre-installed profiler)
        raise AssertionError("harness: profiler changed in the untraced execution")
    if B["threading_prof_after"] is not B["threading_prof_before"]:
        viol("C03.profiler-restored", None, {"what": "threading profile hook"}, "after the tracing context exited, the process-wide threading profile hook is not what it was before")
    if plan.get("thread"):
        evaluated += 1
        late = len(B["logger"].logs) - B["logs_at_exit"]
        if B.get("thread_prof") is not None and B.get("thread_prof") is B["tracer"] or late:
            viol("C03.profiler-restored", None, {"what": "thread started inside the block", "late_logs": late},
                 "a thread started inside the tracing block is still being traced after the context exited (%d traces handed to the logger after its flush)" % late)
    # --- flush exactly once
    evaluated += 1
    lg = B["logger"]
    if lg.flushes != 1:
        viol("C03.flush-once", None, {"flushes": lg.flushes, "block_exit": plan["block_exit"], "faults": faults},
             "logger.flush() was called %d times at context exit" % lg.flushes)
    if B["outer_flushes"] is not None and B["outer_flushes"] != 1:
        viol("C03.flush-once", None, {"outer_flushes": B["outer_flushes"]}, "the outer context's logger was flushed %d times" % B["outer_flushes"])
    # --- progress: every completed definite call is still handed to log (exactly one attempt)
    n_tw = sum(1 for rec in B["journal"] if rec[0] == "E" and any(TW.oid_of(x) is not None for x in rec[3].values() if type(x).__module__ == "dst.world.tripwires"))
    if faults.get("inspect") is not True and not plan["prog"].get("proxied"):
        j_end = B["j_exit"] if B["reset_at"] is None else min(B["j_exit"], B["reset_at"])   # nothing is traced after the program's own setprofile(None)
        n_logs = B["logs_at_exit"] if B["reset_at"] is None else sum(1 for tr, pos in lg.logs if pos <= B["reset_at"])
        TVs, ev, info, calls, comps, matched = TT.check(lp, B["journal"][:j_end], lg.logs[:n_logs], plan["k"], get_type, prefix="C03", admitted=B["admitted"])
        evaluated += len(comps)
        for v in TVs:
            if v["clause"] in ("C03.once", "C03.order"):
                # transient inspection fault: calls that had started before the last hook raised may legitimately have lost
                # their trace; once the fault has stopped, every later call must be handed to the logger again
                if faults.get("inspect") and (B["last_raise"] is None or v["site"].get("cid") is None or v["site"]["cid"] <= B["last_raise"]):
                    continue
                v["clause"] = "C03.progress"
                V.append(v)
    fired = {}
    if lg.fired:
        fired["log_raises"] = lg.fired
    if lg.flush_fired:
        fired["flush_raises"] = lg.flush_fired
    if faults.get("inspect"):
        fired["inspect_raises" if faults["inspect"] is True else "inspect_raises_transient"] = len([e for e in B["hj"]])
    if B["reset_at"] is not None:
        fired["program_setprofile_none"] = 1
    if plan.get("thread"):
        fired["thread_outlives_block"] = 1
    probes = {}
    if n_tw:
        probes["traced call with a tripwire argument"] = 1
    if plan["pre_profiler"] != "none":
        probes["pre-installed profiler: " + plan["pre_profiler"]] = 1
    if plan["block_exit"] == "exception":
        probes["traced block exits by exception"] = 1
    if plan["prog"].get("proxied"):
        probes["callable proxy bound to a module global"] = 1
    if plan["prog"].get("global_tw"):
        probes["tripwire objects bound to module globals"] = 1
    if plan.get("cm_early"):
        probes["context manager created before, entered after the program installed its profiler"] = 1
    if plan.get("real_logger"):
        probes["real CallTraceStoreLogger + SQLite store behind the fault tee"] = 1
    if B["reset_at"] is not None:
        probes["program called sys.setprofile(None) inside the block"] = 1
    if faults.get("inspect") not in (None, False, True) and B["last_raise"] is not None:
        probes["transient inspection fault (hooks raise only at first)"] = 1
    if plan.get("thread"):
        probes["thread started inside the block runs fixture code after the context exited"] = 1
    if plan.get("enumerated"):
        probes["enumerated single/double fault placement"] = 1
    return {
        "violations": V,
        # metaclass __eq__/__hash__ invocation counts depend on id()-based hashes (memory layout): excluded from the digest
        "digest": R.digest([B["summary"], [list(map(str, e)) for e in B["hj"] if not e[1].startswith("Meta.")],
                            B["exc"], lg.flushes, len(lg.logs)]),
        "sig": R.digest([c02.sig_of(B["journal"], lp), sorted(fired), plan["pre_profiler"], plan["block_exit"]]),
        "nontrivial": bool(n_tw or fired),
        "evaluated": evaluated,
        "faults": fired,
        "probes": probes,
        "stats": {"hook_invocations_caused_by_tracer": len(extra)},
    }
