"""C14 - stub content depends only on the set of traces, not their order or process."""
import collections
import json
import monkeytype.cli  # noqa: F401
import os
import random as _random
import shutil
import sqlite3
import subprocess
import sys

from dst.core import rng as R
from dst.props import c01, c02, c10
from dst.world import driver as D
from dst.world import e2e as E
from dst.world import program as P

ID = "C14"
LEVEL = "exploration"
DESIGN_REF = "DESIGN.md section 3, C14"
RULE = ("each run captures one trace set from a simulated workload (real tracer -> real SQLite), then delivers it to K databases by K histories: row permutations, "
        "duplicated rows, splits into batches with different simulated clock values (changing the order filter() returns rows in); `stub` is generated for every variant "
        "in-process, and for a share of the runs in fresh interpreters with pinned PYTHONHASHSEED, ASLR off (setarch -R) and a layout salt; all stubs must have the same "
        "normal form (unions as sets). non-trivial = at least two variants produced a non-empty stub and were compared; distinct = distinct plan digests")
REAL = c01.REAL + ["fresh CPython interpreters per stub phase (PYTHONHASHSEED, setarch -R)"]
STUBBED = c01.STUBBED + ["history delivery: rows are re-inserted with raw sqlite3 in the scheduler's order / duplication / batching / clock values"]
ASSUMPTIONS = ["--limit stays above the number of rows", "union member order is not part of the stub content", "if setarch -R is refused the layout dimension is dropped and reported"]

worker_init = c02.worker_init
VERIF = os.path.dirname(os.path.dirname(os.path.dirname(os.path.abspath(__file__))))
_SETARCH = None


def setarch_prefix():
    global _SETARCH
    if _SETARCH is None:
        exe = shutil.which("setarch")
        _SETARCH = []
        if exe:
            try:
                arch = os.uname().machine
                if subprocess.run([exe, arch, "-R", "true"], capture_output=True).returncode == 0:
                    _SETARCH = [exe, arch, "-R"]
            except Exception:
                pass
    return _SETARCH


def n_runs(tier):
    if os.environ.get("VERIF_RUNS"):
        return int(os.environ["VERIF_RUNS"])
    return 4000 if tier == "quick" else 80000


def shrink_hint(plan):
    return ["sessions", "script", "variants", "interp"]


def count_ops(plan):
    return c01.count_ops(plan) + len(plan["variants"]) + len(plan["interp"])


def sample_view(plan):
    v = c01.sample_view(plan)
    v["variants"] = plan["variants"]
    v["interp"] = plan["interp"]
    return v


def gen(rng, index, tier):
    plan = c01.gen(rng, index, tier, dict_heavy=rng.random() < 0.3)
    for s in plan["sessions"]:
        s["faults"] = {}
        s["k"] = plan["k_stub"]
    plan["k_stub"] = rng.choice([0, 3]) if rng.random() < 0.8 else plan["k_stub"]
    for s in plan["sessions"]:
        s["k"] = plan["k_stub"]
    plan["rewriter"] = rng.choice(["default", "default", "noop", "large_union2", "config_dict"])
    plan["flag"] = rng.choice(["default", "ignore", "norewrite"])
    nv = rng.choice([2, 3, 4, 6])
    plan["variants"] = [{"seed": rng.getrandbits(32), "dup_p": rng.choice([0.0, 0.2, 0.5]), "batches": rng.choice([1, 2, 3, 5]),
                         "days": [rng.choice([0, 0, 1, -1, 30, -400]) for _ in range(5)]} for _ in range(nv)]
    every = 23 if tier == "quick" else 37
    # part of the trace set may be stale (its argument class no longer exists): such rows are skipped,
    # and where they sit among the valid rows must not matter either
    plan["stale"] = rng.choice([0, 0, 1, 2])
    plan["interp"] = []
    plan["interp_all_modules"] = tier == "thorough"   # quick: fresh interpreters only for the module with most rows
    if index % every == 3:
        plan["interp"] = [{"hashseed": rng.choice([0, 1, 12345, 4242]), "salt": rng.choice([0, 1, 7, 100, 1001]), "variant": rng.randrange(nv)} for _ in range(rng.choice([2, 3]))]
    return plan


def deliver(rows, variant, path):
    """Deliver the distinct rows to a new database by the variant's history."""
    vr = _random.Random(variant["seed"])
    rows = list(rows)
    vr.shuffle(rows)
    seq = []
    for r in rows:
        seq.append(r)
        while vr.random() < variant["dup_p"]:
            seq.insert(vr.randrange(len(seq) + 1), r)
    nb = max(1, min(variant["batches"], len(seq)))
    cuts = sorted(vr.sample(range(1, len(seq)), nb - 1)) if len(seq) > 1 and nb > 1 else []
    batches = [seq[i:j] for i, j in zip([0] + cuts, cuts + [len(seq)])]
    from monkeytype.db.sqlite import create_call_trace_table

    for bi, batch in enumerate(batches):
        conn = sqlite3.connect(path)  # a new connection per batch
        create_call_trace_table(conn)
        day = variant["days"][bi % len(variant["days"])]
        with conn:
            conn.executemany("INSERT INTO monkeytype_call_traces VALUES (?, ?, ?, ?, ?, ?)",
                             [("2024-01-%02d 12:00:00.%06d" % (1, i) if day == 0 else _day(day, i),) + tuple(r) for i, r in enumerate(batch)])
        conn.close()
    return len(seq), len(batches)


def _day(day, i):
    import datetime

    return str(datetime.datetime(2024, 1, 1, 12, 0, 0) + datetime.timedelta(days=day, microseconds=i + 1))


def run_interp(root, db, plan, iv, module, limit):
    args = {"repo": os.environ.get("VERIF_REPO", "/repo"), "verif": VERIF, "root": root, "db": db, "k": plan["k_stub"], "rewriter": plan["rewriter"],
            "salt": iv["salt"], "flag": plan["flag"], "module": module, "limit": limit}
    env = {k: v for k, v in os.environ.items() if k not in ("PYTHONPATH", "VERIF_REEXEC")}
    env["PYTHONHASHSEED"] = str(iv["hashseed"])
    env["PYTHONDONTWRITEBYTECODE"] = "1"
    cmd = setarch_prefix() + [sys.executable, os.path.join(VERIF, "dst", "actors", "interp_stub.py"), json.dumps(args)]
    p = subprocess.run(cmd, env=env, capture_output=True, text=True, timeout=120)
    try:
        return json.loads(p.stdout.strip().splitlines()[-1])
    except Exception:
        return {"rc": None, "out": "", "err": p.stderr[-500:], "exc": "interpreter phase failed: " + p.stderr[-300:]}


def outcome_class(rc, exc):
    if exc is None:
        return ["ok", rc]
    last = exc.strip().splitlines()[-1]
    return ["exc", last.split(":")[0]]


def execute(plan):
    import gc

    V = []
    probes = collections.Counter()

    def viol(clause, cause, site, msg):
        V.append({"clause": clause, "cause": cause, "site": site, "msg": msg})

    gc.collect()
    workdir = E.new_workdir()
    on_disk = bool(plan["interp"])
    lp = None
    evaluated = 0
    compared = 0
    try:
        if on_disk:
            root = os.path.join(workdir, "src")
            os.makedirs(root)
            # own package name: loading / unloading the on-disk copy must not disturb a cached in-memory program of the same spec
            lp = P.load(dict(plan["prog"], pkg=plan["prog"]["pkg"] + "_d"), root)
        else:
            root = None
            lp = c02.get_program(plan["prog"])
        sessions, path = E.run_sessions(plan, lp, workdir)
        rows0 = E.raw_rows(path)
        def canon(r):
            # union member order inside the stored JSON reflects set iteration (memory layout): order and pick rows by a canonical form
            return json.dumps([c01._norm_json(json.loads(x)) if isinstance(x, str) and x[:1] in "{[" else x for x in r], sort_keys=True)

        distinct = sorted({tuple(r[1:]) for r in rows0}, key=canon)
        if plan.get("stale"):
            pkgp = lp.spec["pkg"] + "."
            extra = []

            def rename_first(d):
                if isinstance(d, dict):
                    if str(d.get("module", "")).startswith(pkgp) and "qualname" in d and not d.get("is_typed_dict"):
                        d["qualname"] = "GoneClass"
                        return True
                    return any(rename_first(d[k]) for k in sorted(d))
                if isinstance(d, list):
                    return any(rename_first(x) for x in d)
                return False

            for r in distinct:
                if len(extra) >= plan["stale"]:
                    break
                if r[2] and ('"module": "%s' % pkgp) in r[2]:
                    d = c01._norm_json(json.loads(r[2]))
                    if rename_first(d):
                        extra.append((r[0], r[1], json.dumps(d, sort_keys=True), r[3], r[4]))
            if extra:
                distinct = sorted(set(distinct) | set(extra), key=canon)
                probes["trace set contains stale rows"] += 1
        results = collections.defaultdict(list)   # module -> [(label, rc, out, exc)]
        dbs = []
        for vi, variant in enumerate(plan["variants"]):
            db = os.path.join(workdir, "v%d.sqlite3" % vi)
            n, nb = deliver(distinct, variant, db)
            dbs.append(db)
            if n > len(distinct):
                probes["history with duplicated rows"] += 1
        per_mod = collections.Counter(r[0].rsplit(".", 1)[-1] for r in distinct)
        busiest = per_mod.most_common(1)[0][0] if per_mod else None
        for m in lp.spec["modules"]:
            modname = lp.spec["pkg"] + "." + m
            pre, tail = E.stub_argv(plan["flag"], modname)
            # the limit is exactly the number of distinct rows: duplicates must not displace any of them
            pre = tuple(pre) + ("--limit", str(max(1, len(distinct))))
            rc, out, err, exc = E.run_cli(tail, path, plan["k_stub"], plan["rewriter"], pre)
            results[m].append(("captured", rc, out, exc))
            for vi, db in enumerate(dbs):
                rc, out, err, exc = E.run_cli(tail, db, plan["k_stub"], plan["rewriter"], pre)
                results[m].append(("variant%d" % vi, rc, out, exc))
            for ii, iv in enumerate(plan["interp"]):
                if iv["variant"] >= len(dbs) or (m != busiest and not (plan.get("interp_all_modules") and per_mod.get(m))):
                    continue
                res = run_interp(root, dbs[iv["variant"]], plan, iv, modname, max(1, len(distinct)))
                if res.get("exc") and "interpreter phase failed" in res["exc"]:
                    raise RuntimeError(res["exc"])
                results[m].append(("interp%d(hashseed=%d,salt=%d)" % (ii, iv["hashseed"], iv["salt"]), res["rc"], res["out"], res["exc"]))
                probes["stub generated in a fresh interpreter"] += 1
        for m, lst in results.items():
            base = lst[0]
            nonempty = [x for x in lst if x[2].strip()]
            if len(nonempty) >= 2:
                compared += 1
            b_norm = c10.norm_stub(base[2]) if base[3] is None else None
            b_out = outcome_class(base[1], base[3])
            for label, rc, out, exc in lst[1:]:
                evaluated += 1
                oc = outcome_class(rc, exc)
                site = {"module": m, "variant": label, "rewriter": plan["rewriter"], "flag": plan["flag"], "k": plan["k_stub"]}
                if oc != b_out:
                    viol("C14.same-outcome", None, dict(site, base=b_out, got=oc), "stub generation ends differently for the same trace set: %r vs %r (%s)" % (b_out, oc, (exc or base[3] or "")[-300:]))
                    continue
                if exc is not None:
                    probes["all variants fail the same way"] += 1
                    continue
                n = c10.norm_stub(out)
                if n != b_norm:
                    viol("C14.same-stub", None, site, "stub differs for the same trace set delivered by another history: %s" % c10.first_diff(n, b_norm, "only in this variant", "only in the stub of the captured database"))
        return {
            "violations": V,
            "digest": R.digest(sorted(([c01._norm_json(json.loads(x)) if isinstance(x, str) and x[:1] in "{[" else x for x in r] for r in distinct), key=lambda z: json.dumps(z, sort_keys=True)) +
                               [[m, [(l, outcome_class(rc, exc)) for l, rc, out, exc in lst], c10.norm_stub(lst[0][2])] for m, lst in sorted(results.items())]),
            "sig": R.digest([plan["variants"], plan["interp"], len(distinct)]),
            "nontrivial": compared > 0,
            "evaluated": evaluated,
            "faults": {"row_permutation": len(plan["variants"]), "fresh_interpreter": len(plan["interp"])},
            "probes": dict(probes),
            "stats": {"distinct_rows": len(distinct)},
        }
    finally:
        if on_disk and lp is not None:
            P.unload(lp)
        shutil.rmtree(workdir, ignore_errors=True)


def evidence_extra(tier, cov):
    return {"aslr_disabled_for_interpreter_phases": bool(setarch_prefix())}
