"""C09 - the trace store returns exactly what was added: deduplicated, filtered, bounded, atomic, durable."""
import collections
import os
import shutil
import tempfile

from dst.actors.sqlite_actor import Actor
from dst.core import rng as R
from dst.core.runner import scratch_root

ID = "C09"
LEVEL = "fault_enumeration"
DESIGN_REF = "DESIGN.md section 3, C09"
RULE = ("mode 'hist': seeded histories of add/filter/list_modules/reopen/clock-jump/disk-full over 1..16 forked actor processes sharing one SQLite file, with "
        "park points every vm_step VM instructions inside selected adds where the scheduler aborts, SIGKILLs, takes crash images, or runs another actor's read/write; "
        "mode 'enum': for one batch (1..4 rows quick, 1..12 thorough; unserialisable trace at a chosen position; cache_size 2 or default) EVERY progress-handler index is "
        "used once each as abort, kill, crash-image, concurrent-reader and concurrent-writer point. non-trivial = at least one committed row was compared with the "
        "reference model; distinct = distinct plan digests. Row alphabet: colliding modules / qualnames (case, `_`, `%`, characters outside the BMP), 3 % module-less "
        "(NULL) rows; batches of 0..1100 rows")
REAL = ["monkeytype.db.sqlite.SQLiteStore (make_store/add/filter/list_modules)", "monkeytype.encoding (row encoding)", "sqlite3 + SQLite 3.40 on a real file (tmpfs)",
        "POSIX file locks between real processes", "SIGKILL, RLIMIT_FSIZE"]
STUBBED = ["sqlite3.connect proxy (adds timeout=0)", "datetime seam (simulated clock with jumps)", "scheduler-driven progress handler on the store's public conn",
           "traces are synthetic CallTrace objects over functions with colliding module/qualname alphabets"]
ASSUMPTIONS = ["no power-loss model: crash images are in-order copies of db + rollback journal", "one process runs at any time (lock-step), so every interleaving is the scheduler's choice",
               "recency of LIMIT-truncated results is not asserted (the property does not state it)"]
EXHAUSTIVE = False

MODULES = ["m", "M", "m_x", "mXx", "pkg.mod"]
# (identifiers may contain characters outside the Basic Multilingual Plane: U+20BB7 sorts after U+FFFF in UTF-8 byte order)
QUALS = ["my_func", "myXfunc", "MY_FUNC", "my_func2", "Foo.bar", "foo", "Foo", "a%b", "a_b", "aXb", "a%", "a", "Foo.\U00020bb7x", "\U00020bb7y", "Foo.\uffffz"]
# a qualname with a lone surrogate: the trace serialises, but the row cannot be bound as SQL text (UnicodeEncodeError, not an sqlite3.Error)
UNBINDABLE = "broken\ud800name"
PREFIXES = [None, None, "", "my_func", "my_", "my", "MY", "Foo", "Foo.", "foo", "F", "a%", "a_", "a", "%", "_", "myXfunc", "my_func2", "a%b", "Foo.\U00020bb7", "Foo.\uffff"]


def n_runs(tier):
    if os.environ.get("VERIF_RUNS"):
        return int(os.environ["VERIF_RUNS"])
    return 2000 if tier == "quick" else 60000


def enum_configs(tier):
    out = []
    maxb = 4 if tier == "quick" else 12
    for cache in (2, None):
        for nb in range(1, maxb + 1):
            for bad in [None] + list(range(nb)):
                if tier == "quick" and bad not in (None, 0, nb - 1):
                    continue
                if tier != "quick" and nb > 6 and bad not in (None, 0, nb // 2, nb - 1):
                    continue
                out.append((cache, nb, bad))
    return out


def gen_trace(rng, bad_p=0.0):
    # rarely a function without a module (defined by exec() in a bare namespace: __module__ is None -> a NULL in the module column)
    return {"m": rng.choice(MODULES) if rng.random() > 0.03 else None, "q": rng.choice(QUALS) if rng.random() > 0.015 else UNBINDABLE,
            "args": rng.randrange(5), "ret": rng.randrange(4), "yld": rng.randrange(5), "bad": rng.random() < bad_p}


def gen_batch(rng, kn):
    n = rng.choice(kn["batch_sizes"])
    pool = [gen_trace(rng) for _ in range(max(1, n // 3 + 1))]
    out = []
    for _ in range(n):
        t = dict(rng.choice(pool)) if rng.random() < 0.5 else gen_trace(rng)
        t["bad"] = rng.random() < kn["bad_p"]
        out.append(t)
    return out


def gen(rng, index, tier):
    ecs = enum_configs(tier)
    if index < len(ecs):
        cache, nb, bad = ecs[index]
        batch = [gen_trace(rng) for _ in range(nb)]
        if bad is not None:
            batch[bad]["bad"] = True
        prior = [[gen_trace(rng) for _ in range(rng.choice([0, 3, 40]))]]
        for t in batch + prior[0]:
            if t["q"] == UNBINDABLE:
                t["q"] = "a"   # the enumeration is about interruption points of a well-formed batch
        return {"mode": "enum", "cache_size": cache, "batch": batch, "prior": prior, "vm_step": 1,
                "kinds": ["abort", "kill", "image", "read", "write"], "only": None}
    kn = {
        "actors": rng.choice([1, 2, 2, 3, 4, 8, 16]),
        "batch_sizes": rng.choice([[1, 2, 3], [1, 5, 20], [0, 1, 2, 60], [200, 400], [1, 499, 501, 1100]]),
        "bad_p": rng.choice([0.0, 0.0, 0.1, 0.3]),
        "faults": rng.random() < 0.7,
        "vm_step": rng.choice([1, 5, 20, 100, 1000]),
        "cache_size": rng.choice([2, 4, None, None]),
    }
    nops = rng.randint(5, 40 if tier == "quick" else 60)
    ops = []
    days = 0
    for _ in range(nops):
        a = rng.randrange(kn["actors"])
        r = rng.random()
        if r < 0.40:
            batch = gen_batch(rng, kn)
            op = {"op": "add", "actor": a, "batch": batch, "park_every": 0, "decisions": [], "via_logger": rng.random() < 0.3}
            if kn["faults"] and rng.random() < 0.6:
                op["park_every"] = kn["vm_step"]
                est = max(2, (len(batch) * 45) // kn["vm_step"])
                for _ in range(rng.choice([1, 1, 2, 3])):
                    k = rng.choice(["abort", "kill", "read", "read", "write", "image", "filter"])
                    d = {"at": rng.randrange(est), "do": k}
                    if k in ("write", "filter"):
                        d["actor"] = rng.randrange(kn["actors"])
                        if k == "write":
                            d["batch"] = gen_batch(rng, dict(kn, batch_sizes=[1, 2, 3, 5]))
                            d["via_logger"] = rng.random() < 0.5
                        else:
                            d.update({"m": rng.choice(MODULES), "p": rng.choice(PREFIXES), "n": rng.choice([1, 2, 5, 2000])})
                    op["decisions"].append(d)
            ops.append(op)
        elif r < 0.47:
            # the logger keeps its traces when add() raised and hands the same batch over again
            ops.append({"op": "readd", "actor": a})
        elif r < 0.70:
            ops.append({"op": "filter", "actor": a, "m": rng.choice(MODULES), "p": rng.choice(PREFIXES), "n": rng.choice([0, 1, 2, 3, 5, 2000, None])})
        elif r < 0.78:
            ops.append({"op": "list_modules", "actor": a})
        elif r < 0.86:
            ops.append({"op": "reopen", "actor": a})
        elif r < 0.93:
            days += rng.choice([-400, -30, -1, 1, 1, 7, 365])
            ops.append({"op": "clock", "actor": a, "days": days})
        elif kn["faults"]:
            if rng.random() < 0.6:
                ops.append({"op": "rlimit", "actor": a, "extra": rng.choice([0, 1024, 4096, 8192])})
            else:
                ops.append({"op": "heal", "actor": a})
    return {"mode": "hist", "actors": kn["actors"], "cache_size": kn["cache_size"], "ops": ops}


def shrink_hint(plan):
    return ["ops", "batch", "decisions", "prior"]


def count_ops(plan):
    if plan["mode"] == "enum":
        return len(plan["batch"]) + sum(len(b) for b in plan["prior"])
    return sum(1 + len(o.get("batch", [])) + len(o.get("decisions", [])) for o in plan["ops"])


def sample_view(plan):
    return plan


def narrow(plan, violation):
    """An enumeration is reduced to the single failing (park index, fault kind) point."""
    pt = (violation.get("site") or {}).get("enum_point")
    if plan.get("mode") == "enum" and pt and not plan.get("only"):
        return dict(plan, only=list(pt))
    return None


# ---------------------------------------------------------------------------------------------


class World:
    def __init__(self, cache_size):
        self.dir = tempfile.mkdtemp(prefix="verif-c09-", dir=scratch_root())
        self.path = os.path.join(self.dir, "traces.sqlite3")
        self.cache_size = cache_size
        self.actors = {}
        self.observer = None
        self.model = collections.Counter()
        self.V = []
        self.evaluated = 0
        self.faults = collections.Counter()
        self.probes = collections.Counter()
        self.sleepers = []
        self.log = []
        self.limited = set()
        self.compared_rows = 0
        self.parked_now = False
        self._inflight = None
        self.last_batch = {}
        self.unopened = set()

    def obs(self):
        if self.observer is None or not self.observer.alive:
            self.observer = Actor(self.path, observer=True)
        return self.observer

    def actor(self, i):
        a = self.actors.get(i)
        if a is None or not a.alive:
            a = Actor(self.path)
            r = a.call({"op": "open", "cache_size": self.cache_size})
            if "err" in r:
                if self.parked_now and "locked" in r["err"]:
                    self.probes["open refused while a writer holds the lock"] += 1
                    a.stop()
                    return None
                self.viol("C09.liveness", None, {"actor": i, "op": "open"}, "opening the store failed with no fault active: " + r["err"])
            self.actors[i] = a
        return a

    def viol(self, clause, cause, site, msg):
        self.V.append({"clause": clause, "cause": cause, "site": site, "msg": msg})

    def close(self):
        for a in list(self.actors.values()):
            a.stop()
        if self.observer is not None:
            self.observer.stop()
        shutil.rmtree(self.dir, ignore_errors=True)

    # ---- oracle pieces
    def check_raw(self, where, tolerate_locked=True, alt=None, path=None, image=False):
        """Independent connection: the table must hold exactly the committed distinct rows (or those of `alt`)."""
        if image:
            r = self.obs().call({"op": "image", "dst": os.path.join(self.dir, "image.sqlite3")})
        else:
            r = self.obs().call({"op": "raw"})
        self.evaluated += 1
        if "err" in r:
            if "locked" in r["err"] and tolerate_locked:
                self.probes["independent reader blocked by a writer's exclusive lock"] += 1
                return None
            if "no such table" in r["err"] and not self.model:
                return "model"
            self.viol("C09.atomic", None, {"where": where}, "independent read failed: " + r["err"])
            return None
        # The property speaks of DISTINCT rows ("d counts the distinct such rows ever committed"): how many physical copies of a row
        # the table holds is not part of it (a store may de-duplicate identical rows on write), so sets are compared, not multisets.
        got = {tuple(x) for x in r["rows"]}
        if r["integrity"] != [["ok"]]:
            self.viol("C09.atomic", None, {"where": where}, "integrity_check: %r" % (r["integrity"],))
        self.compared_rows += len(r["rows"])
        if got == set(self.model):
            return "model"
        if alt is not None and got == set(alt):
            return "alt"
        missing = set(self.model) - got
        extra = got - set(self.model)
        clause = "C09.durable" if where.startswith(("reopen", "restart", "final")) else "C09.atomic"
        self.viol(clause, None, {"where": where, "missing": len(missing), "extra": len(extra)},
                  "table content differs from the reference model at %s: %d committed distinct rows missing, %d unexpected distinct rows (partial batch?) e.g. %r" % (
                      where, len(missing), len(extra), (list(extra) or list(missing))[:1]))
        return None

    def check_filter(self, op, rows, where, model=None):
        self.evaluated += 1
        model = self.model if model is None else model
        m, p, n = op["m"], op.get("p"), op.get("n")
        lim = 2000 if n is None else n
        match = {r for r in model if r[0] == m and (p is None or (r[1] or "").startswith(p))}
        d = len(match)
        got = [tuple(r) for r in rows]
        site = {"m": m, "p": p, "n": n, "where": where}
        for r in got:
            if r[0] != m or not (p is None or (r[1] or "").startswith(p)):
                cause = None
                self.viol("C09.filter-match", cause, site, "row %r does not have module %r / qualname prefix %r" % (r[:2], m, p))
                break
        if len(set(got)) != len(got):
            self.viol("C09.filter-distinct", None, site, "duplicate rows in result")
        for r in got:
            if r not in model:
                self.viol("C09.filter-member", None, site, "row %r was never committed" % (r[:2],))
                break
        if len(got) != min(lim, d):
            self.viol("C09.filter-count", None, dict(site, got=len(got), d=d), "filter returned %d rows, expected min(%d, %d)" % (len(got), lim, d))
        self.compared_rows += len(got)

    def check_modules(self, mods, where):
        self.evaluated += 1
        # whether the module-less (NULL) rows show up in the listing is not judged: None is not a module
        want = {r[0] for r in self.model} - {None}
        named = [m for m in mods if m is not None]
        if set(named) != want or len(named) != len(set(named)):
            self.viol("C09.modules", None, {"where": where, "got": sorted(named), "want": sorted(want)}, "list_modules %r, expected %r" % (sorted(named), sorted(want)))
        if None in {r[0] for r in self.model}:
            self.probes["module listing with module-less (NULL) rows in the table"] += 1

    # ---- operations
    def side_op(self, d, parked_actor_idx, where):
        k = d["do"]
        if k == "read":
            self.faults["concurrent_reader_at_park"] += 1
            if self.check_raw(where + ":read", alt=self.inflight_alt()) == "alt":
                self.probes["observation landed after the commit point"] += 1
        elif k == "image":
            self.faults["crash_image"] += 1
            if self.check_raw(where + ":image", image=True, alt=self.inflight_alt()) == "alt":
                self.probes["observation landed after the commit point"] += 1
        elif k == "filter":
            ai = d["actor"]
            if ai == parked_actor_idx:
                return
            self.faults["concurrent_filter_at_park"] += 1
            other = self.actor(ai)
            if other is None:
                return
            r = other.call(dict(d, op="filter") if d.get("n") is not None else {"op": "filter", "m": d["m"], "p": d.get("p")})
            if "err" in r:
                if "locked" in r["err"]:
                    self.probes["filter refused: database is locked"] += 1
                elif ai in self.limited:
                    self.probes["filter failed under disk-full"] += 1   # a reader that has to roll a hot journal back cannot write either
                else:
                    self.viol("C09.filter-count", None, {"where": where}, "filter failed: " + r["err"])
            else:
                # the parked writer may already be past its commit point (the COMMIT statement has VM steps too): the table is
                # stable while it is parked, so an independent read tells which of the two states the filter has to match
                model = None
                if self._inflight is not None and self.check_raw(where + ":filter-pre", alt=self.inflight_alt()) == "alt":
                    self.probes["observation landed after the commit point"] += 1
                    model = self.inflight_alt()
                self.check_filter(d, r["rows"], where + ":filter", model=model)
        elif k == "write":
            ai = d["actor"]
            if ai == parked_actor_idx:
                return
            self.faults["concurrent_writer_at_park"] += 1
            other = self.actor(ai)
            if other is None:
                return
            r = other.call({"op": "add", "batch": d["batch"], "park_every": 0, "via_logger": bool(d.get("via_logger"))}, auto_wake=False)
            if "sleeping" in r:
                # the second writer did not give up: it sleeps and will try again. It is woken once the parked writer is through.
                self.sleepers.append((ai, other, d["batch"], where))
                self.probes["second writer sleeps (retry loop) while the first holds the lock"] += 1
                return
            if "err" in r:
                if "locked" in r["err"]:
                    self.probes["second writer refused: database is locked"] += 1
                elif ai in self.limited:
                    self.probes["add failed under disk-full"] += 1
                elif any(s_.get("q") == UNBINDABLE and not s_.get("bad") for s_ in d["batch"]):
                    self.probes["batch with a row that cannot be bound as SQL text was rejected as a whole"] += 1
                else:
                    self.viol("C09.atomic", None, {"where": where}, "concurrent add failed unexpectedly: " + r["err"])
            else:
                self.probes["second writer committed while first was parked before its write lock"] += 1
                self.model.update(tuple(x) for x in r["expected"])

    def inflight_alt(self):
        if self._inflight is None:
            return None
        return self.model + self._inflight

    def do_add(self, op, idx, enum_stop_after=None):
        try:
            return self._do_add(op, idx, enum_stop_after)
        finally:
            self.wake_sleepers()

    def wake_sleepers(self):
        """Writers that went to sleep inside add() while another writer held the lock: the lock is free now, let them finish."""
        pending, self.sleepers = self.sleepers, []
        for ai, other, batch, where in pending:
            if not other.alive:
                continue
            other.send({"do": "wake"})
            r = other.recv(60)
            n = 0
            while "sleeping" in r and n < 8:
                n += 1
                other.send({"do": "wake"})
                r = other.recv(60)
            unbindable = any(s_.get("q") == UNBINDABLE and not s_.get("bad") for s_ in batch)
            if "err" in r:
                if not ("locked" in r["err"] or ai in self.limited or unbindable):
                    self.viol("C09.atomic", None, {"where": where + ":retry"}, "retried add failed unexpectedly: " + r["err"][:300])
                self.check_raw(where + ":after-failed-retry", tolerate_locked=False, alt=self.model + collections.Counter(tuple(x) for x in r.get("expected", [])))
            else:
                self.model.update(tuple(x) for x in r["expected"])
                self.check_raw(where + ":after-retry", tolerate_locked=False)

    def _do_add(self, op, idx, enum_stop_after=None):
        ai = op["actor"]
        a = self.actor(ai)
        self._inflight = None
        if op.get("park_every") and op.get("decisions"):
            enc = self.obs().call({"op": "encode", "batch": op["batch"]})
            self._inflight = collections.Counter(tuple(x) for x in enc.get("expected", []))
        decisions = collections.defaultdict(list)
        for d in op.get("decisions") or []:
            decisions[d["at"]].append(d)
        last_at = max(decisions) if decisions else -1
        a.send({"op": "add", "batch": op["batch"], "park_every": op.get("park_every") or 0, "via_logger": bool(op.get("via_logger"))})
        killed = False
        aborted = False
        where = "op%d" % idx
        while True:
            msg = a.recv(60)
            if "sleeping" in msg:
                a.send({"do": "wake"})
                continue
            if "parked" not in msg:
                break
            i = msg["parked"]
            do = "resume"
            self.parked_now = True
            for d in decisions.get(i, []):
                if d["do"] == "abort":
                    do = "abort"
                    aborted = True
                    self.faults["sql_interrupt"] += 1
                elif d["do"] == "kill":
                    self.faults["sql_kill"] += 1
                    a.kill()
                    killed = True
                    break
                else:
                    self.side_op(d, ai, "%s@%d" % (where, i))
            self.parked_now = False
            if killed:
                break
            if do == "resume" and i >= last_at:
                do = "free"
            a.send({"do": do})
        self.log.append(["add", ai, len(op["batch"]), "killed" if killed else ("err" if "err" in msg else "ok")])
        if killed:
            # only durable state survives; the batch must be entirely absent (or, if the kill landed
            # after the commit point, entirely present)
            enc = self.obs().call({"op": "encode", "batch": op["batch"]})
            alt = self.model + collections.Counter(tuple(x) for x in enc.get("expected", []))
            res = self.check_raw(where + ":after-kill", tolerate_locked=False, alt=alt)
            if res == "alt":
                self.probes["kill landed after the commit point (batch entirely present)"] += 1
                self.model = alt
            self.actors.pop(ai, None)
            self.limited.discard(ai)
            # restart
            self.actor(ai)
            self.check_raw("restart:" + where, tolerate_locked=False)
            return
        expected = [tuple(x) for x in msg.get("expected", [])]
        full = self.model + collections.Counter(expected)  # self.model may have grown by a concurrent writer
        unbindable = any(s_.get("q") == UNBINDABLE and not s_.get("bad") for s_ in op["batch"])
        if "err" in msg:
            fault_active = aborted or ai in self.limited or "locked" in msg["err"] or unbindable
            if not fault_active:
                self.viol("C09.atomic", None, {"where": where, "err": msg["err"][:200]}, "add raised with no fault active: " + msg["err"][:300])
            if "locked" in msg["err"]:
                self.probes["add refused: database is locked"] += 1
            if unbindable and "Unicode" in msg["err"]:
                self.probes["batch with a row that cannot be bound as SQL text was rejected as a whole"] += 1
            if ai in self.limited:
                self.probes["add failed under disk-full"] += 1
            res = self.check_raw(where + ":after-failed-add", tolerate_locked=False, alt=full)
            if res == "alt":
                self.probes["failed add had committed everything"] += 1
                self.model = full
        else:
            if aborted:
                self.probes["abort landed after the last statement step (add succeeded)"] += 1
            self.model = full
            if any(s.get("bad") for s in op["batch"]):
                self.probes["batch with unserialisable trace committed the rest"] += 1
            self.check_raw(where + ":after-add", tolerate_locked=False)

    def ensure_open(self, ai):
        if ai not in self.unopened:
            return True
        r = self.actor(ai).call({"op": "reopen"})
        if "err" in r:
            if ai in self.limited:
                return False
            self.viol("C09.liveness", None, {"actor": ai}, "store cannot be reopened although no fault is active: " + r["err"][:300])
            return False
        self.unopened.discard(ai)
        return True

    def do_op(self, op, idx):
        k = op["op"]
        if k in ("add", "readd", "filter", "list_modules") and not self.ensure_open(op["actor"]):
            self.probes["operation skipped: store not open under disk-full"] += 1
            return
        if k == "add":
            self.last_batch[op["actor"]] = op["batch"]
            return self.do_add(op, idx)
        if k == "readd":
            b = self.last_batch.get(op["actor"])
            if b is None:
                return
            self.faults["same_batch_added_again"] += 1
            return self.do_add({"op": "add", "actor": op["actor"], "batch": b, "park_every": 0, "decisions": []}, idx)
        ai = op["actor"]
        where = "op%d" % idx
        if k == "filter":
            cmd = {"op": "filter", "m": op["m"], "p": op.get("p")}
            if op.get("n") is not None:
                cmd["n"] = op["n"]
            r = self.actor(ai).call(cmd)
            self.log.append(["filter", ai, op["m"], op.get("p"), op.get("n"), sorted(map(tuple, r.get("rows", [])), key=repr) if op.get("n") in (None, 2000) else len(r.get("rows", []))])
            if "err" in r:
                if ai in self.limited:
                    self.probes["filter failed under disk-full"] += 1   # e.g. a hot journal left by a killed writer cannot be rolled back
                else:
                    self.viol("C09.filter-count", None, {"where": where}, "filter raised with no fault active: " + r["err"][:300])
            else:
                self.check_filter(op, r["rows"], where)
        elif k == "list_modules":
            r = self.actor(ai).call({"op": "list_modules"})
            self.log.append(["list_modules", ai, sorted(r.get("modules", []), key=repr)])
            if "err" in r:
                if ai in self.limited:
                    self.probes["list_modules failed under disk-full"] += 1
                else:
                    self.viol("C09.modules", None, {"where": where}, "list_modules raised: " + r["err"][:300])
            else:
                self.check_modules(r["modules"], where)
        elif k == "reopen":
            r = self.actor(ai).call({"op": "reopen"})
            self.faults["reopen"] += 1
            if "err" in r:
                if ai in self.limited:
                    self.probes["reopen failed under disk-full"] += 1
                    self.unopened.add(ai)
                else:
                    self.viol("C09.durable", None, {"where": where}, "reopen failed: " + r["err"][:300])
            else:
                self.unopened.discard(ai)
            self.check_raw("reopen:" + where, tolerate_locked=False)
        elif k == "clock":
            self.actor(ai).call({"op": "clock", "days": op["days"]})
            self.faults["clock_jump"] += 1
        elif k == "rlimit":
            self.actor(ai).call({"op": "rlimit", "extra": op["extra"]})
            self.limited.add(ai)
            self.faults["disk_full"] += 1
        elif k == "heal":
            self.actor(ai).call({"op": "rlimit", "heal": True})
            self.limited.discard(ai)

    def finale(self):
        """Liveness once faults stop: heal, then a fresh connection adds within one step; everything still holds."""
        for ai in list(self.limited):
            a = self.actors.get(ai)
            if a is not None and a.alive:
                a.call({"op": "rlimit", "heal": True})
        self.limited.clear()
        fresh = Actor(self.path)
        try:
            r = fresh.call({"op": "open", "cache_size": None})
            if "err" in r:
                self.viol("C09.liveness", None, {"op": "open"}, "fresh connection cannot open the store after faults stopped: " + r["err"][:300])
                return
            t = {"m": "m", "q": "liveness_probe", "args": 1, "ret": 1, "yld": 0}
            r = fresh.call({"op": "add", "batch": [t], "park_every": 0})
            self.evaluated += 1
            if "err" in r:
                self.viol("C09.liveness", None, {"op": "add"}, "add from a fresh connection failed after faults stopped: " + r["err"][:300])
            else:
                self.model.update(tuple(x) for x in r["expected"])
            self.check_raw("final", tolerate_locked=False)
            for m in sorted(({r[0] for r in self.model} - {None}) | {"m", "M"}):
                for p in (None, "", "my_func", "my", "Foo", "foo", "a%", "a_", "a"):
                    rr = fresh.call({"op": "filter", "m": m, "p": p, "n": 1000000})
                    if "err" in rr:
                        self.viol("C09.liveness", None, {"op": "filter"}, "filter failed after faults stopped: " + rr["err"][:200])
                        break
                    self.check_filter({"m": m, "p": p, "n": 1000000}, rr["rows"], "final")
            rr = fresh.call({"op": "list_modules"})
            if "err" not in rr:
                self.check_modules(rr["modules"], "final")
        finally:
            fresh.stop()


def run_hist(plan):
    w = World(plan.get("cache_size"))
    try:
        days = [0]
        for idx, op in enumerate(plan["ops"]):
            if op.get("actor", 0) >= plan["actors"]:
                op = dict(op, actor=op["actor"] % plan["actors"])
            if op["op"] == "clock":
                days.append(op["days"])
            w.do_op(op, idx)
        w.finale()
        return w, (max(days) - min(days))
    finally:
        w.close()


def run_enum(plan):
    """Every progress-handler index of one batch insert, each used once per fault kind."""
    base = World(plan.get("cache_size"))
    total_w = base
    try:
        a = base.actor(0)
        for b in plan["prior"]:
            if b:
                r = a.call({"op": "add", "batch": b, "park_every": 0})
                if "err" in r:
                    base.viol("C09.atomic", None, {"where": "prior"}, "fault-free add failed: " + r["err"][:300])
                else:
                    base.model.update(tuple(x) for x in r["expected"])
        a.stop()
        base.actors.clear()
        base_model = collections.Counter(base.model)
        snap = base.path + ".base"
        SUFFIXES = ("", "-journal", "-wal", "-shm")
        for suffix in SUFFIXES:   # all connections are closed: the files on disk are the whole state
            if os.path.exists(base.path + suffix):
                shutil.copyfile(base.path + suffix, snap + suffix)

        def restore():
            for suffix in SUFFIXES:
                if os.path.exists(base.path + suffix):
                    os.unlink(base.path + suffix)
                if os.path.exists(snap + suffix):
                    shutil.copyfile(snap + suffix, base.path + suffix)
            base.model = collections.Counter(base_model)
            for x in list(base.actors.values()):
                x.stop()
            base.actors.clear()
            base.limited.clear()

        # count the park points of this insert
        restore()
        a = base.actor(0)
        a.send({"op": "add", "batch": plan["batch"], "park_every": plan["vm_step"]})
        n = 0
        while True:
            msg = a.recv(60)
            if "sleeping" in msg:
                a.send({"do": "wake"})
                continue
            if "parked" not in msg:
                break
            n += 1
            a.send({"do": "resume"})
        if "err" in msg:
            base.viol("C09.atomic", None, {"where": "count"}, "fault-free add failed: " + msg["err"][:300])
        else:
            base.model.update(tuple(x) for x in msg["expected"])
            base.check_raw("enum:count", tolerate_locked=False)
            if any(s.get("bad") for s in plan["batch"]):
                base.probes["batch with unserialisable trace committed the rest"] += 1
        base.probes["park points enumerated"] += n
        points = [(k, kind) for k in range(n) for kind in plan["kinds"]]
        if plan.get("only"):
            points = [tuple(plan["only"])]
        for k, kind in points:
            if base.V:
                # keep the first failing point identifiable
                for v in base.V:
                    v["site"].setdefault("enum_point", None)
                break
            restore()
            d = {"at": k, "do": kind}
            if kind == "write":
                d.update({"actor": 1, "batch": [{"m": "m", "q": "other_writer", "args": 1, "ret": 1, "yld": 0}]})
            op = {"op": "add", "actor": 0, "batch": plan["batch"], "park_every": plan["vm_step"], "decisions": [d]}
            nv = len(base.V)
            base.do_add(op, k)
            base.finale_light()
            for v in base.V[nv:]:
                v["site"]["enum_point"] = [k, kind]
        return base, 0
    finally:
        base.close()


def _finale_light(self):
    fresh = Actor(self.path)
    try:
        r = fresh.call({"op": "open", "cache_size": None})
        if "err" in r:
            self.viol("C09.liveness", None, {"op": "open"}, "fresh connection cannot open the store: " + r["err"][:300])
            return
        r = fresh.call({"op": "add", "batch": [{"m": "m", "q": "liveness_probe", "args": 1, "ret": 1, "yld": 0}], "park_every": 0})
        self.evaluated += 1
        if "err" in r:
            self.viol("C09.liveness", None, {"op": "add"}, "add from a fresh connection failed after the fault: " + r["err"][:300])
        else:
            self.model.update(tuple(x) for x in r["expected"])
        self.check_raw("final", tolerate_locked=False)
    finally:
        fresh.stop()


World.finale_light = _finale_light


def execute(plan):
    if plan["mode"] == "enum":
        w, days = run_enum(plan)
    else:
        w, days = run_hist(plan)
    sig = R.digest([[e[0], e[1], e[-1] if e[0] == "add" else None] for e in w.log] + sorted(w.faults.items())) if plan["mode"] == "hist" else None
    return {
        "violations": w.V,
        "digest": R.digest([w.log, sorted(w.model.items(), key=repr), sorted(w.faults.items()), sorted(w.probes.items())]),
        "sig": sig,
        "nontrivial": w.compared_rows > 0,
        "evaluated": w.evaluated,
        "faults": dict(w.faults),
        "probes": dict(w.probes),
        "sim_days": days,
        "stats": {"rows_compared": w.compared_rows, "enum_configs": 1 if plan["mode"] == "enum" else 0},
    }


def evidence_extra(tier, cov):
    n = len(enum_configs(tier))
    return {"exhaustive": False,
            "exhaustive_subspace": "every progress-handler index x {abort, kill, crash image, concurrent reader, concurrent writer} for %d batch configurations "
                                   "(sizes 1..%d, cache_size 2/default, unserialisable trace positions) was enumerated; the seeded histories beyond that are sampled" % (
                                       n, 4 if tier == "quick" else 12)}
