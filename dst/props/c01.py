"""C01 - emitted annotations admit every value seen at runtime (run -> store -> stub).
Also hosts the shared end-to-end run used by C06."""
import collections
import collections.abc
import json
import monkeytype.cli  # noqa: F401  (imported before workers fork)
import os
import shutil
import sys
import typing

from dst.core import rng as R
from dst.props import c02
from dst.world import driver as D
from dst.world import e2e as E
from dst.world import program as P
from dst.oracles import stubeval as SE

ID = "C01"
LEVEL = "exploration"
DESIGN_REF = "DESIGN.md section 3, C01"
RULE = ("each run = generated program x history of 1..4 tracing sessions (real monkeytype.trace, real CallTraceStoreLogger, real SQLite file, simulated clock jumping "
        "between sessions; in about a quarter of the runs lossy faults: logger.log raises, flush raises, the batch insert is interrupted) x k in {0,1,2,3,10} x rewriter "
        "in {none, each shipped rewriter, default chain} x CLI flag in {default, --ignore-existing-annotations, --omit-existing-annotations, --disable-type-rewriting}; then "
        "cli.main stub per module, every annotation evaluated with the stub's own names and every committed observed value checked for membership. non-trivial = at "
        "least one (value, annotation) pair was judged; distinct = distinct plan digests")
REAL = ["monkeytype.trace / tracing / typing / encoding / db.sqlite / db.base / stubs / cli (stub)", "sqlite3 on a real file (tmpfs)", "argparse CLI in-process"]
STUBBED = ["Config subclass wiring the real store/logger through a fault-injecting tee", "datetime seam (simulated clock)", "generated self-recording program"]
ASSUMPTIONS = ["values whose trace was not acknowledged as committed are not required to conform", "--limit stays above the number of distinct rows",
               "a generator *object* value is only required to be an Iterator", "a crash of `stub` is counted (stub_crashed) but is C10's / C07's clause, not C01's"]

worker_init = c02.worker_init


def n_runs(tier):
    if os.environ.get("VERIF_RUNS"):
        return int(os.environ["VERIF_RUNS"])
    return 24000 if tier == "quick" else 600000


def shrink_hint(plan):
    return ["sessions", "script"]


def count_ops(plan):
    def cnt(acts):
        return sum(1 + cnt(a.get("script", [])) for a in acts)

    return sum(cnt(s["script"]) for s in plan["sessions"])


def sample_view(plan):
    v = c02.sample_view({"prog": plan["prog"], "k": plan["k_stub"], "filter": "fixture", "script": plan["sessions"][0]["script"]})
    v["sessions"] = [{"k": s["k"], "faults": s.get("faults"), "clock_days": s.get("clock_days"), "ops": c02.count_ops({"script": s["script"]})} for s in plan["sessions"]]
    v.update({k: plan[k] for k in ("rewriter", "flag", "k_stub")})
    return v


def add_annotations(rng, spec):
    """Truthful source annotations on some positions (object admits everything)."""
    for f in spec["funcs"]:
        if rng.random() < 0.35:
            ann = {"params": {}, "ret": None}
            for p in f["params"]:
                if p["k"] in ("po", "pk", "ko") and p["n"] not in ("self", "cls") and rng.random() < 0.5:
                    ann["params"][p["n"]] = "object"
            if rng.random() < 0.4:
                ann["ret"] = "object"
            if ann["params"] or ann["ret"]:
                f["annotations"] = ann


def gen(rng, index, tier, dict_heavy=None, vary_k=False):
    if dict_heavy is None:
        dict_heavy = rng.random() < 0.25
    pool = 512 if tier == "quick" else 4096
    spec, pkn = c02.gen_program_spec(int(os.environ.get("VERIF_SEED", "1") or 1), pool, index)
    spec = dict(spec, funcs=[dict(f) for f in spec["funcs"]])
    if rng.random() < 0.5:
        add_annotations(rng, spec)
        spec["pkg"] = "simpkg_" + R.digest({k: v for k, v in spec.items() if k != "pkg"})[:10]
    kn = c02.swarm_knobs(rng)
    for key in ("generators", "coroutines", "classes", "nested_classes"):
        kn[key] = pkn[key]
    kn["raises"] = rng.random() < 0.5
    kn["burst_p"] = rng.choice([0.0, 0.3, 0.6])
    kn["lib_values"] = rng.random() < 0.4
    if dict_heavy:
        kn["containers"] = ["d", "d", "d", "ld", "ld", "l", "t", "st", "dd", "d"]
        kn["atom_p"] = rng.choice([0.25, 0.4])
        kn["depth"] = rng.choice([1, 2, 3])
        kn["dict_sizes"] = rng.choice([[0, 1, 2, 3], [1, 2, 3, 4, 5], [0, 2, 6, 12], [1, 1, 2, 11]])
        kn["key_space"] = rng.choice([3, 6, 14])
    k = rng.choice([0, 1, 2, 3, 10] if not dict_heavy else [0, 1, 2, 2, 3, 3, 10])
    nses = rng.choice([1, 1, 2, 3, 4])
    lossy = rng.random() < 0.25
    sessions = []
    day = 0
    for si in range(nses):
        ctx = D.Ctx(rng, spec, kn)
        script = D.gen_script(ctx, None, kn["call_depth"], top=True)
        if rng.random() < kn["burst_p"]:
            script = script + gen_burst(rng, spec, kn)
            rng.shuffle(script)
        for a in script:
            a["catch"] = True
        faults = {}
        if lossy and rng.random() < 0.7:
            fk = rng.choice(["log", "log", "flush", "sql_interrupt"])
            if fk == "log":
                faults["log"] = sorted(set(rng.randrange(8) for _ in range(rng.choice([1, 2]))))
            elif fk == "flush":
                faults["flush"] = True
            else:
                faults["sql_interrupt"] = rng.randrange(60)
        ks = k
        if vary_k and rng.random() < 0.5:
            ks = rng.choice([0, 1, 2, 3, 10])
        sessions.append({"script": script, "k": ks, "faults": faults, "clock_days": day})
        day += rng.choice([0, 0, 1, -1, 30, -400, 365])
    k_stub = k
    if vary_k and rng.random() < 0.4:
        k_stub = rng.choice([0, 1, 2, 3, 10])
    return {
        "prog": spec,
        "sessions": sessions,
        "k_stub": k_stub,
        "rewriter": rng.choice(E.REWRITERS),
        "flag": rng.choice(E.FLAGS),
    }


def gen_burst(rng, spec, kn):
    """Many calls of one plain function with values of one family: many traces merge at its positions."""
    from dst.world import values as VV

    cands = [f for f in spec["funcs"] if f["body"] == "plain" and f["kind"] in ("func", "wrapped", "method", "staticmethod", "classmethod")
             and any(p["k"] in ("po", "pk", "ko") and p["n"] not in ("self", "cls") for p in f["params"])]
    if not cands:
        return []
    f = rng.choice(cands)
    recv = None
    if f["kind"] in ("method", "classmethod", "staticmethod"):
        rs = D.receivers(spec, f)
        if not rs:
            return []
        recv = {"inst": rng.choice(rs)} if f["kind"] == "method" else {"cls": rng.choice(rs)}
    fam = rng.choice(VV.BURST_FAMILIES)
    classes = [c["name"] for c in spec["classes"]]
    out = []
    for _ in range(rng.choice([6, 8, 12, 20])):
        args, kwargs = [], {}
        for p in (f["params"][1:] if f["kind"] in ("method", "classmethod") else f["params"]):
            if p["k"] in ("po", "pk"):
                args.append(VV.gen_burst_value(rng, fam, classes, kn))
            elif p["k"] == "ko":
                kwargs[p["n"]] = VV.gen_burst_value(rng, fam, classes, kn)
        ex = rng.random()
        exit_script = [{"a": "ret", "v": VV.gen_burst_value(rng, fam, classes, kn)}] if ex < 0.6 else []
        out.append({"a": "call", "fid": f["fid"], "recv": recv, "args": args, "kwargs": kwargs, "script": exit_script, "catch": True})
    return out


# ---------------------------------------------------------------------------------------------


class Run:
    """Everything one end-to-end execution observed."""


def run(plan):
    lp = c02.get_program(plan["prog"])
    workdir = E.new_workdir()
    r = Run()
    r.lp = lp
    try:
        r.sessions, r.path = E.run_sessions(plan, lp, workdir)
        r.rows = E.raw_rows(r.path)
        r.stubs = {}
        for m in lp.spec["modules"]:
            modname = lp.spec["pkg"] + "." + m
            pre, tail = E.stub_argv(plan["flag"], modname)
            # --limit is exactly the number of distinct rows: duplicates (hot calls) must not displace rare traces
            pre = tuple(pre) + ("--limit", str(max(1, len({tuple(x[1:]) for x in r.rows}))))
            r.stubs[m] = E.run_cli(tail, r.path, plan["k_stub"], plan["rewriter"], pre, k_decoy=plan.get("k_decoy"))
    finally:
        shutil.rmtree(workdir, ignore_errors=True)
    return r


def observed_values(r):
    """fid -> {"params": {name: [values]}, "ret": [values], "yields": [values], "calls": n} for committed traces."""
    obs = {}
    for s in r.sessions:
        for call, tr in s.matched:
            if id(tr) not in s.acked_traces:
                continue
            o = obs.setdefault(call.fid, {"params": collections.defaultdict(list), "ret": [], "yields": [], "calls": 0, "suspended": False})
            o["calls"] += 1
            for n, v in call.params.items():
                o["params"][n].append(v)
            if call.end == "R":
                o["ret"].append(call.ret)
            for _, v in call.yields:
                o["yields"].append(v)
            if getattr(tr, "yield_type", None) is not None and r.lp.funcs[call.fid]["body"] == "coro":
                o["suspended"] = True
    return obs


def classify_eval_error(src, err, plan):
    s = str(err)
    if "DUMMY_NAME" in src or "DUMMY_NAME" in s or "ForwardRef(" in src:
        return "typeddict_under_unsupported_generic"
    return None


def check(plan, r):
    lp = r.lp
    V = []
    evaluated = 0
    probes = collections.Counter()
    rewriting = plan["flag"] != "norewrite"
    rec_active = rewriting and plan["rewriter"] in ("default", "remove_empty")

    def viol(clause, cause, site, msg):
        V.append({"clause": clause, "cause": cause, "site": site, "msg": msg})

    obs = observed_values(r)
    by_qual = {}
    for fid, f in lp.funcs.items():
        by_qual[(f["module"], E.qualname_of(lp, f))] = fid
    for m, (rc, out, err, exc) in r.stubs.items():
        if exc is not None:
            probes["stub_crashed"] += 1
            continue
        if not out.strip():
            continue
        # (decided from the stored rows, not from the calls whose values are judged: a lossy session still leaves rows)
        nested_traced = any(row[1] == lp.spec["pkg"] + "." + m and (row[2] or "").count(".") >= 2 and "<locals>" not in (row[2] or "") for row in r.rows)
        try:
            ps = SE.parse(out)
        except SyntaxError as e:
            cause = "nested_class_stub_syntax" if ("class " in (e.text or "") and "." in (e.text or "")) and nested_traced else None
            viol("C01.evaluates", cause, {"module": m, "line": (e.text or "").strip()[:120]}, "the stub does not parse: %s" % (e,))
            evaluated += 1
            continue
        mod = lp.modules[m]
        ns = SE.build_namespace(ps, mod)
        for kind, detail in ps.errors:
            viol("C01.evaluates", "typeddict_under_unsupported_generic" if "DUMMY_NAME" in detail else None, {"module": m, "what": kind},
                 "stub %s block fails: %s" % (kind, detail[:300]))
        for qn, fs in ps.functions.items():
            fid = by_qual.get((m, qn))
            if fid is None or fid not in obs:
                continue
            f = lp.funcs[fid]
            o = obs[fid]
            positions = [("param:" + n, src, o["params"].get(n, [])) for n, src in fs["params"].items()]
            if fs["ret"] is not None:
                positions.append(("return", fs["ret"], None))
            for pos, src, vals in positions:
                evaluated += 1
                site = {"module": m, "func": qn, "position": pos, "annotation": src[:200], "rewriter": plan["rewriter"], "flag": plan["flag"]}
                try:
                    T = SE.evaluate(src, ns)
                except Exception as e:
                    cause = classify_eval_error(src, e, plan)
                    if cause is None and isinstance(e, NameError) and ps.typed_dicts:
                        cause = None
                    viol("C01.evaluates", cause, site, "annotation %r does not evaluate with the names the stub provides: %r" % (src[:200], e))
                    continue
                if pos != "return":
                    for v in vals:
                        fail = SE.conforms(v, T, ns)
                        if fail:
                            fail.lenient_fail = SE.conforms(v, T, ns, 0, True)
                            viol("C01.admits", admit_cause(fail, f, pos, T, rec_active, o, ps, src, lp.spec["pkg"]), dict(site, why=fail.why, value_type=type(fail.value).__name__),
                                 "%s %s: annotation %s does not admit an observed value (%r)" % (qn, pos, src[:200], fail))
                            break
                    continue
                fail = check_return(f, T, o, ns)
                if fail:
                    fail.lenient_fail = check_return(f, T, o, ns, True)
                    viol("C01.admits", admit_cause(fail, f, pos, T, rec_active, o, ps, src, lp.spec["pkg"]), dict(site, why=fail.why, value_type=type(fail.value).__name__),
                         "%s return: annotation %s does not admit an observed value (%r)" % (qn, src[:200], fail))
    return V, evaluated, probes


def check_return(f, T, o, ns, lenient=False):
    origin = typing.get_origin(T)
    args = typing.get_args(T)
    if f["body"] == "gen":
        if origin in (collections.abc.Iterator, collections.abc.Iterable):
            for v in o["yields"]:
                fail = SE.conforms(v, args[0] if args else typing.Any, ns, 0, lenient)
                if fail:
                    return fail
            for v in o["ret"]:
                if v is not None:
                    if not o["yields"] and SE.conforms(v, T, ns, 0, lenient) is None:
                        continue  # never yielded: the annotation is the traced *return* type itself
                    if lenient and SE.is_empty_container_like(v):
                        continue
                    return SE.Fail(v, T, "generator returned a value but the annotation is an Iterator")
            return None
        if origin is collections.abc.Generator:
            for v in o["yields"]:
                fail = SE.conforms(v, args[0], ns, 0, lenient)
                if fail:
                    return fail
            for v in o["ret"]:
                fail = SE.conforms(v, args[2], ns, 0, lenient)
                if fail:
                    return fail
            return None
        if T is typing.Any or T is object:
            return None
        if o["yields"] and not (lenient and all(SE.is_empty_container_like(y) for y in o["yields"])):
            return SE.Fail(o["yields"][0], T, "generator yielded but the annotation is not an Iterator/Generator")
    for v in o["ret"]:
        fail = SE.conforms(v, T, ns, 0, lenient)
        if fail:
            return fail
    return None


_TD_NAME = __import__("re").compile(r"\w+TypedDict__RENAME_ME__\w*")


def reaches_duplicate(src, ps):
    """Does the annotation refer, directly or through TypedDict fields, to a class name the stub defines twice?"""
    todo = list(_TD_NAME.findall(src))
    seen = set()
    while todo:
        n = todo.pop()
        if n in seen:
            continue
        seen.add(n)
        if n in ps.dup_typed_dicts:
            return True
        c = ps.ns.get(n)
        if isinstance(c, SE.StubTypedDict):
            stack = [c]
            while stack:
                x = stack.pop()
                for fsrc in x.fields.values():
                    todo.extend(_TD_NAME.findall(fsrc))
                stack.extend(x.bases)
                if x.name in ps.dup_typed_dicts:
                    return True
    return False


_DOTTED = __import__("re").compile(r"\b([A-Za-z_][\w]*(?:\.[A-Za-z_][\w]*)+)\b")


def _qualified_but_from_imported(src, ps):
    """Does the annotation text use a module-qualified class name (mod.sub.Cls) that the stub only provides as `from mod.sub import Cls`?"""
    import ast as _ast

    from_imports = {(n.module, a.name) for n in ps.imports if isinstance(n, _ast.ImportFrom) for a in n.names}
    plain_imports = {a.name for n in ps.imports if isinstance(n, _ast.Import) for a in n.names}
    for dotted in _DOTTED.findall(src):
        mod, _, name = dotted.rpartition(".")
        if ((mod, name) in from_imports or (mod.startswith("_") and (mod[1:], name) in from_imports)) and mod not in plain_imports:
            return True   # (the import block renders `_io` as `io`)
    return False


def admit_cause(fail, f, pos, T, rec_active, o, ps=None, src="", pkg_root="simpkg_"):
    if f["body"] == "agen":
        # listed finding (same defect as C02): the yields of an async generator are recorded as CPython's internal wrapper class
        # (such rows cannot be decoded and are skipped at stub time, so the annotations reflect only part of the calls) and its
        # await suspensions as yields (Iterator[...] return annotations)
        return "async_generator_yield_wrapped"
    if ps is not None and ps.dup_typed_dicts and reaches_duplicate(src, ps):
        return "typeddict_class_name_collision"
    if f["body"] == "coro" and pos == "return" and o.get("suspended") and typing.get_origin(T) in (collections.abc.Iterator, collections.abc.Generator):
        return "coroutine_await_suspension"
    lf = getattr(fail, "lenient_fail", fail)
    if rec_active and lf is None:
        return "remove_empty_containers_drops_witnessed_empty"
    for x in (fail, lf if rec_active else None):
        # listed finding: a user class inside a generated TypedDict body is written with its module path (pkg.mod.K1), which nothing
        # imports.  Any other name a field cannot resolve (a typing generic, a class of the stub's own module) is not explained by it.
        if x is not None and x.why.startswith(SE.UNEVALUABLE) and ("DUMMY_NAME" in str(x.typ) or "ForwardRef(" in str(x.typ)):
            # listed finding (same defect as under C01.evaluates): an anonymous TypedDict below DefaultDict / Iterator / Type, here in a field
            return "typeddict_under_unsupported_generic"
        if x is not None and x.why.startswith(SE.UNEVALUABLE) and "NameError" in x.why and ("name '%s'" % pkg_root) in x.why:
            return "typeddict_field_unresolvable"
        if x is not None and x.why.startswith(SE.UNEVALUABLE) and ps is not None and _qualified_but_from_imported(str(x.typ), ps):
            # the same defect with a class of another module: the field says `array.array` / `decimal.Decimal`, the stub has `from array import array`
            return "typeddict_field_unresolvable"
    return None


def _norm_json(d):
    """Encoded type with Union members sorted (their order reflects set iteration = memory layout)."""
    if isinstance(d, dict):
        out = {k: _norm_json(v) for k, v in d.items()}
        if out.get("qualname") == "Union" and isinstance(out.get("elem_types"), list):
            out["elem_types"] = sorted(out["elem_types"], key=lambda x: json.dumps(x, sort_keys=True))
        return out
    if isinstance(d, list):
        return [_norm_json(x) for x in d]
    return d


def event_digest(plan, r):
    ev = []
    for s in r.sessions:
        ev.append([s.exc, len(s.journal), len(s.logger.logs) if s.logger else None, bool(s.logger and s.logger.acked)])
    rows = []
    for row in r.rows:
        rows.append([row[1], row[2]] + [json.dumps(_norm_json(json.loads(x)), sort_keys=True) if x else None for x in row[3:]])
    ev.append(sorted(rows, key=repr))
    for m, (rc, out, err, exc) in sorted(r.stubs.items()):
        names = []
        try:
            names = sorted(SE.parse(out).functions) if out.strip() else []
        except SyntaxError:
            names = ["<syntax error>"]
        ev.append([m, rc, bool(exc), names])
    return R.digest(ev)


def fired(r):
    c = collections.Counter()
    for s in r.sessions:
        if s.logger:
            c.update(s.logger.fired)
    return dict(c)


def execute(plan):
    r = run(plan)
    V, evaluated, probes = check(plan, r)
    days = [s.day for s in r.sessions]
    if len(r.sessions) > 1:
        probes["history with several sessions"] += 1
    if any(s.exc for s in r.sessions):
        probes["session ended by a logger/store exception"] += 1
    return {
        "violations": V,
        "digest": event_digest(plan, r),
        "sig": R.digest([[c02.sig_of(s.journal, r.lp), s.exc is not None] for s in r.sessions] + [plan["rewriter"], plan["flag"], plan["k_stub"]]),
        "nontrivial": evaluated > 0,
        "evaluated": evaluated,
        "faults": fired(r),
        "probes": dict(probes),
        "sim_days": (max(days) - min(days)) if days else 0,
        "stats": {"rows": len(r.rows)},
    }
