"""C10 - stale or undecodable stored traces are skipped, never fatal."""
import ast
import collections
import copy
import io
import json
import monkeytype.cli  # noqa: F401  (imported before workers fork)
import os
import shutil
import sqlite3
import sys

from dst.core import rng as R
from dst.props import c01, c02
from dst.world import driver as D
from dst.world import e2e as E
from dst.world import program as P

ID = "C10"
LEVEL = "exploration"
DESIGN_REF = "DESIGN.md section 3, C10"
RULE = ("each run = generated fixture package on disk, traced by the real pipeline (1..2 sessions), then 1..2 rounds of code churn (module removed; function removed / "
        "replaced by a class / by a non-callable / moved into a local scope / parameters renamed; method replaced by a value or made a settable property; class "
        "removed / rebound to a non-type / to a function; a module that still exists importing a removed sibling; values of hidden builtin classes), optionally traced again with the new code, with simulated clock jumps reordering rows; then cli.main "
        "stub|apply (module or module:qualname, with and without -v, on the SQLite store or on a minimal custom store) is compared with the same command on a twin database holding only the rows an independent "
        "decodability model accepts. non-trivial = the query returned at least one stale row; distinct = distinct plan digests")
REAL = c01.REAL + ["monkeytype.cli apply (libcst) on the fixture's source file", "importlib on the churned package on disk"]
STUBBED = c01.STUBBED + ["churn injector (rewrites the fixture package between phases)", "decodability model (derived from the churn ops, independent of MonkeyType)"]
ASSUMPTIONS = ["--limit stays above the number of rows", "churn never makes a module fail to import for another reason (syntax error, dangling base class)",
               "rewriter in {none, default chain}: crashes of other rewriters are not this property's"]

worker_init = c02.worker_init

FUNC_CHURN = ["removed", "class", "value", "lazyobj", "local", "renamed"]
METHOD_CHURN = ["removed", "value", "lazyobj", "sproperty", "renamed"]
CLASS_CHURN = ["removed", "value", "lazyobj", "function"]


def n_runs(tier):
    if os.environ.get("VERIF_RUNS"):
        return int(os.environ["VERIF_RUNS"])
    return 2400 if tier == "quick" else 60000


def shrink_hint(plan):
    return ["sessions", "script", "churn"]


def count_ops(plan):
    return sum(len(ph["churn"]) + sum(c02.count_ops({"script": s["script"]}) for s in ph["sessions"]) for ph in plan["phases"])


def sample_view(plan):
    return {"phases": [{"churn": ph["churn"], "sessions": [{"ops": c02.count_ops({"script": s["script"]}), "clock_days": s["clock_days"]} for s in ph["sessions"]]} for ph in plan["phases"]],
            "command": plan["command"], "program": c02.sample_view({"prog": plan["prog"], "k": plan["k"], "filter": "fixture", "script": []})["program"]}


def apply_churn(spec, ops):
    """Pure: new spec with the churn ops applied (ops that no longer make sense are skipped)."""
    spec = copy.deepcopy(spec)
    for op in ops:
        t = op["t"]
        if t == "module":
            gone = {op["m"]} | P.broken_modules(dict(spec, removed_modules=list(spec.get("removed_modules") or ()) + [op["m"]]))
            if op["m"] in spec["modules"] and not any(c["module"] in gone and any(x["module"] not in gone and c["name"] in x["bases"] for x in spec["classes"]) for c in spec["classes"]):
                spec.setdefault("removed_modules", [])
                if op["m"] not in spec["removed_modules"] and len(spec["removed_modules"]) < len(spec["modules"]) - 0:
                    spec["removed_modules"].append(op["m"])
        elif t == "func":
            for f in spec["funcs"]:
                if f["fid"] == op["fid"] and not f.get("churn"):
                    kind = op["k"]
                    if f.get("cls"):
                        if kind not in METHOD_CHURN:
                            continue
                        if kind == "sproperty" and f["kind"] != "property":
                            kind = "value"
                    elif kind not in FUNC_CHURN:
                        continue
                    if kind == "renamed":
                        for p in f["params"]:
                            if p["n"] not in ("self", "cls", "args", "kwargs"):
                                p["n"] = p["n"] + "_r"
                        f["renamed"] = True
                    else:
                        f["churn"] = kind
        elif t == "class":
            for c in spec["classes"]:
                if c["name"] == op["c"] and not c.get("churn"):
                    has_sub = any(op["c"] in x["bases"] or x.get("outer") == op["c"] for x in spec["classes"])
                    if not has_sub:
                        c["churn"] = op["k"]
    return spec


def live_spec(spec):
    """Spec restricted to what can still be called (for schedule generation)."""
    dead_cls = {c["name"] for c in spec["classes"] if c.get("churn")}
    rm = set(spec.get("removed_modules") or ()) | P.broken_modules(spec)
    s = dict(spec)
    s["classes"] = [c for c in spec["classes"] if c["name"] not in dead_cls and c["module"] not in rm and c.get("outer") not in dead_cls]
    s["funcs"] = [f for f in spec["funcs"] if not f.get("churn") and f["module"] not in rm and f.get("cls") not in dead_cls
                  and (not f.get("cls") or any(c["name"] == f["cls"] for c in s["classes"]))]
    return s


def gen_sessions(rng, spec, kn, n, day0):
    out = []
    day = day0
    ls = live_spec(spec)
    for _ in range(n):
        if not ls["funcs"]:
            break
        ctx = D.Ctx(rng, ls, kn)
        script = D.gen_script(ctx, None, kn["call_depth"], top=True)
        for a in script:
            a["catch"] = True
        out.append({"script": script, "k": kn["k"], "faults": {}, "clock_days": day})
        day += rng.choice([0, 1, -1, 30, -400])
    return out, day


def gen_churn(rng, spec):
    ops = []
    ls = live_spec(spec)
    for _ in range(rng.choice([1, 1, 2, 3, 5])):
        r = rng.random()
        if r < 0.12 and len(spec["modules"]) > 1:
            ops.append({"t": "module", "m": rng.choice(spec["modules"])})
        elif r < 0.3 and spec.get("imports"):
            ops.append({"t": "module", "m": rng.choice(spec["imports"])[1]})
        elif r < 0.75 and ls["funcs"]:
            f = rng.choice(ls["funcs"])
            ops.append({"t": "func", "fid": f["fid"], "k": rng.choice(METHOD_CHURN if f.get("cls") else FUNC_CHURN)})
        elif ls["classes"]:
            ops.append({"t": "class", "c": rng.choice(ls["classes"])["name"], "k": rng.choice(CLASS_CHURN)})
    return ops


def gen(rng, index, tier):
    pool = 512 if tier == "quick" else 4096
    spec, pkn = c02.gen_program_spec(int(os.environ.get("VERIF_SEED", "1") or 1), pool, index)
    kn = c02.swarm_knobs(rng)
    for key in ("generators", "coroutines", "classes", "nested_classes"):
        kn[key] = pkn[key]
    kn["k"] = rng.choice([0, 0, 2, 10])
    kn["genobjects"] = False
    kn["hidden_builtins"] = rng.random() < 0.4
    if len(spec["modules"]) > 1 and rng.random() < 0.35:
        # one or two plain `import pkg.sibling` dependencies (importer later in load order than the imported module)
        spec = dict(spec)
        edges = []
        for _ in range(rng.choice([1, 1, 2])):
            j = rng.randrange(1, len(spec["modules"]))
            e = [spec["modules"][j], spec["modules"][rng.randrange(j)]]
            if e not in edges:
                edges.append(e)
        spec["imports"] = edges
        spec["pkg"] = spec["pkg"] + "i" + R.digest(edges)[:6]
    phases = []
    cur = spec
    day = 0
    nph = rng.choice([1, 1, 2])
    s0, day = gen_sessions(rng, cur, kn, rng.choice([1, 1, 2]), day)
    phases.append({"churn": [], "sessions": s0})
    for _ in range(nph):
        ops = gen_churn(rng, cur)
        cur = apply_churn(cur, ops)
        ses = []
        if rng.random() < 0.4:
            ses, day = gen_sessions(rng, cur, kn, 1, day)
        phases.append({"churn": ops, "sessions": ses})
    mods = spec["modules"]
    target_mod = rng.choice(mods)
    removed = [op["m"] for ph in phases for op in ph["churn"] if op["t"] == "module"]
    removed = removed + sorted(P.broken_modules(cur))
    force_apply = False
    if removed and rng.random() < 0.6:
        # faults placed where they matter: query the module whose code is gone
        target_mod = rng.choice(removed)
        force_apply = rng.random() < 0.4
    qual = None
    if rng.random() < 0.3:
        fs = [f for f in spec["funcs"] if f["module"] == target_mod]
        if fs:
            f = rng.choice(fs)
            qual = rng.choice([f["name"], f.get("cls") or f["name"], (f.get("cls") + "." + f["name"]) if f.get("cls") else f["name"][:1]])
    return {
        "prog": spec,
        "k": kn["k"],
        "phases": phases,
        "rewriter": rng.choice(["noop", "default"]),
        "command": {"cmd": "apply" if (force_apply or rng.random() < 0.08) else "stub", "verbose": rng.random() < 0.5, "module": target_mod, "qualname": qual,
                    "flag": rng.choice(["default", "default", "ignore"]),
                    # the project's configuration uses its own store class that implements only the required add / filter
                    "minimal_store": rng.random() < 0.3},
    }


# ---------------------------------------------------------------------------------------------
# decodability model (independent of MonkeyType)


def class_path(spec, cname):
    path = []
    c = next((x for x in spec["classes"] if x["name"] == cname), None)
    while c:
        path.append(c["name"])
        c = next((x for x in spec["classes"] if x["name"] == c.get("outer")), None) if c.get("outer") else None
    return ".".join(reversed(path))


def model(spec):
    """What resolves after the churn: sets of (module, qualname) for functions and for types."""
    pkg = spec["pkg"]
    # a module that still exists but imports a removed sibling cannot be imported: everything in it is as gone as the sibling
    rm = set(spec.get("removed_modules") or ()) | P.broken_modules(spec)
    funcs, types_ok = set(), set()
    dead_cls = set()
    for c in spec["classes"]:
        if c["module"] in rm:
            continue
        outer_dead = False
        o = c.get("outer")
        while o:
            oc = next(x for x in spec["classes"] if x["name"] == o)
            if oc.get("churn"):
                outer_dead = True
            o = oc.get("outer")
        if c.get("churn") or outer_dead:
            dead_cls.add(c["name"])
            continue
        types_ok.add((pkg + "." + c["module"], class_path(spec, c["name"])))
    live_classes = [c for c in spec["classes"] if c["module"] not in rm and c["name"] not in dead_cls]
    for f in spec["funcs"]:
        if f.get("cls") or f["module"] in rm:
            continue
        if f.get("churn") in ("removed", "class", "value", "lazyobj", "local") or f["kind"] == "sproperty":
            continue
        funcs.add((pkg + "." + f["module"], f["name"]))
    # attribute lookup on a class walks its MRO: a removed override falls back to the inherited method
    by_cls = collections.defaultdict(dict)
    for f in spec["funcs"]:
        if f.get("cls"):
            by_cls[f["cls"]][f["name"]] = f
    for c in live_classes:
        mro = D.c3(spec, c["name"])
        names = set()
        for x in mro:
            names.update(by_cls.get(x, {}))
        for n in names:
            for x in mro:
                f = by_cls.get(x, {}).get(n)
                if f is None or f.get("churn") == "removed":
                    continue
                xc = next(y for y in spec["classes"] if y["name"] == x)
                if xc["module"] in rm or x in dead_cls:
                    break
                if f.get("churn") in ("value", "lazyobj", "sproperty") or f["kind"] == "sproperty":
                    break
                funcs.add((pkg + "." + c["module"], class_path(spec, c["name"]) + "." + n))
                break
    return funcs, types_ok, pkg


def type_refs(d, out):
    if isinstance(d, dict):
        if "module" in d and "qualname" in d and not d.get("is_typed_dict"):
            out.append((d["module"], d["qualname"]))
        for v in d.values():
            type_refs(v, out)
    elif isinstance(d, list):
        for v in d:
            type_refs(v, out)


def row_decodable(row, funcs, types_ok, pkg):
    created, module, qualname, args_j, ret_j, yld_j = row
    if (module, qualname) not in funcs:
        return False
    refs = []
    for js in (args_j, ret_j, yld_j):
        if js is not None:
            type_refs(json.loads(js), refs)
    for m, q in refs:
        if m.startswith(pkg + ".") and (m, q) not in types_ok:
            return False
        if not m.startswith(pkg + ".") and not _foreign_type_resolves(m, q):
            return False
    return True


_FOREIGN = {}


def _foreign_type_resolves(m, q):
    """A type outside the fixture package (builtins, typing, the simulator's own helpers): does the stored name still lead to a
    type by plain import + attribute access?  (E.g. the class of CPython's internal async-generator wrapper object is stored
    as builtins.async_generator_wrapped_value, which is not an attribute of builtins.)"""
    key = (m, q)
    if m == "builtins" and q in ("NoneType", "NotImplementedType", "mappingproxy"):
        return True   # the three hidden builtin types the trace encoding documents (types.* names stored under builtins)
    if key not in _FOREIGN:
        import importlib

        try:
            obj = importlib.import_module(m)
            for part in q.split("."):
                obj = getattr(obj, part)
            _FOREIGN[key] = isinstance(obj, type) or m == "typing"
        except Exception:
            _FOREIGN[key] = False
    return _FOREIGN[key]


# ---------------------------------------------------------------------------------------------


def norm_ann(node):
    """Annotation AST with Union members sorted (syntactic normal form)."""
    if isinstance(node, ast.Subscript):
        name = ast.unparse(node.value)
        sl = node.slice
        elts = sl.elts if isinstance(sl, ast.Tuple) else [sl]
        parts = [norm_ann(e) for e in elts]
        if name == "Union":
            parts = sorted(set(parts))
        return "%s[%s]" % (name, ", ".join(parts))
    return ast.unparse(node)


def norm_stub(text):
    """Normal form of a stub / source text: per function, per position annotation normal forms; plus
    class set, import set and TypedDict class bodies."""
    try:
        tree = ast.parse(text)
    except SyntaxError:
        return ["<unparsable>"]
    out = []

    def visit(body, prefix):
        for node in body:
            if isinstance(node, (ast.FunctionDef, ast.AsyncFunctionDef)):
                a = node.args
                params = []
                for arg in list(a.posonlyargs) + list(a.args) + list(a.kwonlyargs) + ([a.vararg] if a.vararg else []) + ([a.kwarg] if a.kwarg else []):
                    params.append([arg.arg, norm_ann(arg.annotation) if arg.annotation is not None else None])
                out.append(["def", prefix + node.name, isinstance(node, ast.AsyncFunctionDef), sorted(ast.unparse(d) for d in node.decorator_list),
                            params, norm_ann(node.returns) if node.returns is not None else None])
                visit(node.body, prefix + node.name + ".<locals>.")
            elif isinstance(node, ast.ClassDef):
                fields = [[st.target.id, norm_ann(st.annotation)] for st in node.body if isinstance(st, ast.AnnAssign) and isinstance(st.target, ast.Name)]
                out.append(["class", prefix + node.name, [ast.unparse(b) for b in node.bases], sorted(fields)])
                visit(node.body, prefix + node.name + ".")
            elif isinstance(node, (ast.Import, ast.ImportFrom)):
                for al in node.names:
                    out.append(["import", getattr(node, "module", None), al.name])
    visit(tree.body, "")
    return sorted(out, key=repr)


def run_command(plan, db_path, k, src_path=None, original=None):
    c = plan["command"]
    pkg = plan["prog"]["pkg"]
    target = pkg + "." + c["module"] + ((":" + c["qualname"]) if c["qualname"] else "")
    pre = ["-v"] if c["verbose"] else []
    if c["cmd"] == "stub":
        tail = ["stub"] + (["--ignore-existing-annotations"] if c["flag"] == "ignore" else []) + [target]
    else:
        tail = ["apply"] + (["--ignore-existing-annotations"] if c["flag"] == "ignore" else []) + [target]
    if src_path and original is not None and os.path.exists(os.path.dirname(src_path)):
        with open(src_path, "w") as fh:
            fh.write(original)
    rc, out, err, exc = E.run_cli(tail, db_path, k, plan["rewriter"], pre, minimal_store=bool(c.get("minimal_store")))
    after = None
    if src_path and os.path.exists(src_path):
        with open(src_path) as fh:
            after = fh.read()
    return rc, out, err, exc, after


def execute(plan):
    V = []
    probes = collections.Counter()

    def viol(clause, cause, site, msg):
        V.append({"clause": clause, "cause": cause, "site": site, "msg": msg})

    import gc

    gc.collect()
    workdir = E.new_workdir()
    root = os.path.join(workdir, "src")
    os.makedirs(root)
    sys.path.insert(0, root)
    lp = None
    spec = plan["prog"]
    db = os.path.join(workdir, "traces.sqlite3")
    evaluated = 0
    days = [0]
    try:
        for ph in plan["phases"]:
            if ph["churn"]:
                spec = apply_churn(spec, ph["churn"])
            if lp is not None:
                P.unload(lp)
            lp = P.load(spec, root)
            if ph["sessions"]:
                sub = {"sessions": ph["sessions"], "rewriter": plan["rewriter"]}
                E.run_sessions(sub, lp, workdir)
                days.extend(s["clock_days"] for s in ph["sessions"])
        rows = E.raw_rows(db)
        funcs, types_ok, pkg = model(spec)
        modname = pkg + "." + plan["command"]["module"]
        q = plan["command"]["qualname"]
        sel = [r for r in rows if r[1] == modname and (q is None or (r[2] or "").startswith(q))]
        distinct = {tuple(r[1:]) for r in sel}
        stale = {r for r in distinct if not row_decodable((None,) + r, funcs, types_ok, pkg)}
        good = distinct - stale
        # twin database: only the decodable rows
        twin = os.path.join(workdir, "twin.sqlite3")
        if os.path.exists(db):
            shutil.copyfile(db, twin)
            c = sqlite3.connect(twin)
            allrows = c.execute("SELECT rowid, module, qualname, arg_types, return_type, yield_type FROM monkeytype_call_traces").fetchall()
            for rid, *rest in allrows:
                if not row_decodable((None,) + tuple(rest), funcs, types_ok, pkg):
                    c.execute("DELETE FROM monkeytype_call_traces WHERE rowid = ?", (rid,))
            c.commit()
            c.close()
        else:
            sqlite3.connect(twin).close()
        src_path = None
        original = None
        if plan["command"]["cmd"] == "apply" and plan["command"]["module"] in lp.modules:
            src_path = lp.modules[plan["command"]["module"]].__file__
            original = lp.sources[plan["command"]["module"]]
        rc, out, err, exc, after = run_command(plan, db, plan["k"], src_path, original)
        rc2, out2, err2, exc2, after2 = run_command(plan, twin, plan["k"], src_path, original)
        site = {"command": plan["command"], "stale": len(stale), "good": len(good)}
        evaluated += 1
        if stale:
            probes["query returned stale rows"] += 1
        if stale and good:
            probes["stale and valid rows mixed"] += 1
        if any('"dict_keys"' in (x or "") or '"dict_values"' in (x or "") or '_iterator"' in (x or "") for r in stale for x in r[2:]):
            probes["stale row naming a hidden builtin class (dict_keys, list_iterator, ...)"] += 1
        if stale and P.broken_modules(spec):
            probes["stale rows while a module that still exists imports a removed sibling"] += 1
        if (exc2 is not None or (rc2 not in (0, None))) and good:
            probes["twin run failed too (not this property)"] += 1
        else:
            if exc2 is not None or (rc2 not in (0, None)):
                # nothing is decodable: the expected behaviour does not depend on the twin at all
                out2, err2 = "", ""
            if exc is not None or rc != 0:
                viol("C10.succeeds", None, site, "command failed with stale rows present (rc=%r): %s" % (rc, (exc or err)[-600:]))
            else:
                evaluated += 1
                if plan["command"]["cmd"] == "apply" and src_path:
                    a, b = norm_stub(after or ""), norm_stub(after2 or "")
                    if a != b:
                        viol("C10.same-output", None, site, "applied source differs from what the decodable rows alone give: %s" % first_diff(a, b))
                elif "<unparsable>" in (norm_stub(out)[:1] + norm_stub(out2)[:1]):
                    probes["stub does not parse (C01's clause); output not compared"] += 1
                elif norm_stub(out) != norm_stub(out2):
                    viol("C10.same-output", None, site, "stub differs from what the decodable rows alone give: %s" % first_diff(norm_stub(out), norm_stub(out2)))
                # count
                nst = len(stale)
                lines = [ln for ln in err.splitlines() if ln.strip()]
                lines2 = [ln for ln in err2.splitlines() if ln.strip()]
                if nst:
                    evaluated += 1
                    if plan["command"]["verbose"]:
                        # "each one with -v": one stderr line per skipped row; up to two further lines (a summary, a closing count) are
                        # wording the property does not fix.  Fewer lines, or lines that grow with the number of VALID rows, are not.
                        extra_lines = len(lines) - len(lines2)
                        if not (nst <= extra_lines <= nst + 2):
                            viol("C10.count", None, dict(site, extra_lines=extra_lines), "-v printed %d extra stderr lines for %d skipped rows" % (extra_lines, nst))
                    else:
                        import re

                        if not any(re.search(r"(?<![\\w.])%d(?![\\w.])" % nst, ln) for ln in lines if ln not in lines2 or True):
                            viol("C10.count", None, dict(site, stderr=err[-300:]), "no stderr line reports the number of skipped rows (%d)" % nst)
                elif len(lines) != len(lines2):
                    viol("C10.count", None, site, "stderr differs although nothing was skipped: %r vs %r" % (err[-200:], err2[-200:]))
                if not good and distinct:
                    evaluated += 1
                    if out.strip():
                        viol("C10.none", None, site, "nothing is decodable but the command printed output")
                    if not any(modname in ln and (q is None or q in ln) for ln in lines):
                        viol("C10.none", None, dict(site, stderr=err[-300:]), "nothing is decodable but no stderr line says that no traces were found for %s" % modname)
        return {
            "violations": V,
            "digest": R.digest([sorted(repr([r[0], r[1]] + [json.dumps(c01._norm_json(json.loads(x)), sort_keys=True) if x else None for x in r[2:]]) for r in distinct),
                                len(stale), rc, bool(exc), norm_stub(out), plan["command"]]),
            "sig": R.digest([[ph["churn"] for ph in plan["phases"]], plan["command"]["cmd"], len(stale) > 0, len(good) > 0]),
            "nontrivial": bool(stale),
            "evaluated": evaluated,
            "faults": dict(collections.Counter("churn_" + (op.get("k") or "module") for ph in plan["phases"] for op in ph["churn"])),
            "probes": dict(probes),
            "sim_days": max(days) - min(days),
            "stats": {"stale_rows": len(stale), "valid_rows": len(good)},
        }
    finally:
        if lp is not None:
            P.unload(lp)
        try:
            sys.path.remove(root)
        except ValueError:
            pass
        shutil.rmtree(workdir, ignore_errors=True)


def first_diff(a, b, la="only with stale rows present", lb="only in the twin"):
    for x in a:
        if x not in b:
            return "%s: %r" % (la, x)
    for x in b:
        if x not in a:
            return "%s: %r" % (lb, x)
    return "?"
