"""C18 - sampling thins traces without distorting them."""
import math
import os
import random as _random
import sys

from dst.core import rng as R
from dst.props import c02
from dst.world import driver as D
from dst.oracles import trace_truth as TT

ID = "C18"
LEVEL = "exploration"
DESIGN_REF = "DESIGN.md section 3, C18"
RULE = ("C02's simulated world with sample_rate in {None,1,2,3,10,100}; the sampling RNG is behind a seam: mode A replaces monkeytype.tracing.random by a scripted "
        "stand-in (all-zero, all-nonzero, 'skip first event then sample a later resumption', i.i.d. scripts), mode B seeds the real random module; mode R runs >= 2000 plain "
        "calls for the rate band, mode RS 600..1200 short sessions of 1..3 calls each (a new tracer per session) for the same band; in part of the runs the session is entered "
        "through monkeytype.trace(config) on a Config that already served a (non-empty) session at another rate. non-trivial = at least one admitted call completed; distinct = distinct plan digests")
REAL = c02.REAL + ["monkeytype.tracing sampling decision (handle_call)"]
STUBBED = c02.STUBBED + ["monkeytype.tracing.random (scripted stand-in in mode A; real module seeded from the run seed in modes B/R)"]
ASSUMPTIONS = c02.ASSUMPTIONS + ["rate band is 6 sigma binomial around calls/N, deterministic per seed"]

worker_init = c02.worker_init
shrink_hint = c02.shrink_hint
count_ops = c02.count_ops


def n_runs(tier):
    if os.environ.get("VERIF_RUNS"):
        return int(os.environ["VERIF_RUNS"])
    return 120000 if tier == "quick" else 5000000


def gen(rng, index, tier):
    plan = c02.gen(rng, index, tier, prop_id="C18")
    plan["faults"] = []
    plan["rate"] = rng.choice([None, 1, 2, 2, 3, 3, 10, 100])
    r = rng.random()
    if index % 400 == 7:
        # rate run: many plain calls, real RNG
        plan["mode"] = "R"
        plan["rate"] = rng.choice([1, 2, 3, 10, 100])
        plan["rng_seed"] = rng.getrandbits(32)
        plain = [f for f in plan["prog"]["funcs"] if f["body"] == "plain" and f["kind"] in ("func", "wrapped")]
        if not plain:
            plan["mode"] = "B"
        else:
            ctx = D.Ctx(rng, plan["prog"], {"depth": 0, "atom_p": 1.0})
            script = []
            for _ in range(2500):
                f = rng.choice(plain)
                args, kwargs = D.gen_args_all_positional(ctx, f, False)
                script.append({"a": "call", "fid": f["fid"], "recv": None, "args": args, "kwargs": kwargs, "script": [], "catch": True})
            plan["script"] = script
            plan["filter"] = "fixture"
            return plan
    if index % 400 == 207:
        # rate over MANY SHORT sessions (one per request / per test): each session gets a new tracer and sees only a few calls
        plain = [f for f in plan["prog"]["funcs"] if f["body"] == "plain" and f["kind"] in ("func", "wrapped") and not f.get("inner")]
        if plain:
            plan["mode"] = "RS"
            plan["rate"] = rng.choice([2, 3, 4, 10])
            plan["rng_seed"] = rng.getrandbits(32)
            plan["filter"] = "fixture"
            plan["script"] = []
            ctx = D.Ctx(rng, plan["prog"], {"depth": 0, "atom_p": 1.0})
            sessions = []
            for _ in range(rng.choice([600, 900, 1200])):
                calls = []
                for _ in range(rng.choice([1, 1, 2, 3])):
                    f = rng.choice(plain)
                    args, kwargs = D.gen_args_all_positional(ctx, f, False)
                    calls.append({"a": "call", "fid": f["fid"], "recv": None, "args": args, "kwargs": kwargs, "script": [], "catch": True})
                sessions.append(calls)
            plan["short_sessions"] = sessions
            return plan
    if r < 0.6:
        plan["mode"] = "A"
        kind = rng.choice(["zero", "nonzero", "skipfirst", "skipfirst", "iid", "iid"])
        if kind == "zero":
            plan["draws"] = [0]
        elif kind == "nonzero":
            plan["draws"] = [1]
        elif kind == "skipfirst":
            n = rng.randint(1, 4)
            plan["draws"] = [1] * n + [0] * rng.randint(1, 6) + [rng.randint(0, 1) for _ in range(rng.randint(0, 6))]
        else:
            plan["draws"] = [rng.randint(0, 1) for _ in range(rng.randint(2, 24))]
    else:
        plan["mode"] = "B"
        plan["rng_seed"] = rng.getrandbits(32)
    # history: the session is entered through monkeytype.trace(config) on a Config object that already
    # served an earlier session with another sampling rate (a long-lived deployment changing its rate)
    if rng.random() < 0.3:
        plan["earlier_rate"] = rng.choice([None, 1, 2, 100])
    return plan


def sample_view(plan):
    v = c02.sample_view(plan)
    v.update({k: plan.get(k) for k in ("rate", "mode", "draws", "rng_seed")})
    if plan.get("mode") == "R":
        v["schedule"] = v["schedule"][:5] + ["... %d calls" % len(plan["script"])]
    return v


class ScriptedRandom:
    """Stand-in for the `random` module as seen by monkeytype.tracing."""

    def __init__(self, draws):
        self.draws = list(draws) or [0]
        self.i = 0
        self.consulted = 0

    def randrange(self, n, *a):
        d = self.draws[self.i % len(self.draws)]
        self.i += 1
        self.consulted += 1
        return d % n

    def __getattr__(self, name):  # anything else: the real module
        return getattr(_random, name)


def config_session(earlier_rate, warmup=()):
    """Session factory going through monkeytype.trace(config) with ONE Config object that first
    serves a (workload-free) session at `earlier_rate` and then the real one."""
    import monkeytype
    from monkeytype.config import Config

    state = {}

    class Cfg(Config):
        def trace_store(self):
            raise NotImplementedError

        def trace_logger(self):
            return state["logger"]

        def code_filter(self):
            return state["flt"]

        def sample_rate(self):
            return state["rate"]

        def max_typed_dict_size(self):
            return state["k"]

    cfg = Cfg()

    def session(logger, k, flt, rate):
        from dst.world import rt

        state.update({"logger": c02.TeeLogger(), "flt": flt, "rate": earlier_rate, "k": k})
        with monkeytype.trace(cfg):
            # the earlier session is not empty: a few admitted plain calls, so that whatever sampling state a tracer keeps
            # (counters, countdowns) has been used before the session under test starts
            for fn in warmup:
                for _ in range(3):
                    try:
                        fn()
                    except BaseException:
                        pass
        rt.reset()   # the journal of the session under test starts empty (no handle is live: only plain calls ran)
        state.update({"logger": logger, "flt": flt, "rate": rate, "k": k})
        return monkeytype.trace(cfg)

    return session


def execute_short_sessions(plan, lp):
    """Mode RS: the traced fraction over many short sessions, each with its own tracer (trace_calls builds one per block)."""
    from monkeytype.tracing import trace_calls
    from dst.world import rt
    import gc

    rate = plan["rate"]
    _random.seed(plan["rng_seed"])
    gc.collect()   # garbage of earlier runs is finalised (its bodies may journal) before the journal is reset
    rt.reset()
    D.get_driver()
    mat = D.Mat(lp)
    flt, admitted = c02.make_filter(plan, lp)
    logger = c02.TeeLogger()
    tops = [mat.script(calls) for calls in plan["short_sessions"]]
    n_calls = 0
    for top, calls in zip(tops, plan["short_sessions"]):
        with trace_calls(logger, plan["k"], flt, rate):
            D.run_top(top)
        n_calls += len(calls)
    J = list(rt.J)
    D.finish_handles()
    got = sum(1 for tr, pos in logger.logs if lp.code.get(id(getattr(getattr(tr, "func", None), "__code__", None))) is not None)
    p = 1.0 / rate
    sd = math.sqrt(n_calls * p * (1 - p))
    lo, hi = n_calls * p - 6 * sd - 1, n_calls * p + 6 * sd + 1
    V = []
    if not (lo <= got <= hi):
        V.append({"clause": "C18.rate", "cause": None, "site": {"rate": rate, "calls": n_calls, "traced": got, "sessions": len(tops)},
                  "msg": "rate %d over %d short sessions: %d of %d calls traced, outside the 6-sigma band [%.1f, %.1f]" % (rate, len(tops), got, n_calls, lo, hi)})
    if logger.flushes != len(tops):
        V.append({"clause": "C18.rate", "cause": None, "site": {"flushes": logger.flushes, "sessions": len(tops)}, "msg": "harness: flush count differs from session count"})
    return {"violations": V, "digest": R.digest([len(J), got, n_calls]), "sig": None, "nontrivial": n_calls > 0, "evaluated": 1,
            "probes": {"rate band over many short sessions evaluated": 1}, "faults": {"rng_seeded": 1}, "stats": {"completed_calls": n_calls, "logged_traces": got}}


RENAME = {"C18.once": "C18.all-when-off", "C18.order": "C18.all-when-off"}


def execute(plan):
    import monkeytype.tracing as MT
    from monkeytype.typing import get_type

    lp = c02.get_program(plan["prog"])
    rate = plan["rate"]
    mode = plan["mode"]
    if mode == "RS":
        return execute_short_sessions(plan, lp)
    stand_in = None
    real_random = MT.random
    if mode == "A":
        stand_in = ScriptedRandom(plan["draws"])
        MT.random = stand_in
    else:
        _random.seed(plan["rng_seed"])
    session = None
    if "earlier_rate" in plan:
        # plain module-level fixture functions without required parameters, called with an empty script (they fall off the end)
        warm = [lp.fobj[f["fid"]] for f in lp.spec["funcs"] if f["body"] == "plain" and f["kind"] == "func" and f["fid"] in lp.fobj
                and not any(p["k"] in ("po", "pk", "ko") and not p.get("d") for p in f["params"])][:2]
        session = config_session(plan["earlier_rate"], warm)
    try:
        try:
            J, logger, residue, admitted = c02.run_world(plan, lp, sample_rate=rate, session=session)
        finally:
            MT.random = real_random
    except BaseException as e:
        if isinstance(e, (KeyboardInterrupt, SystemExit)):
            raise
        import traceback

        sys.setprofile(None)
        return {"violations": [{"clause": "C18.subset-faithful", "cause": None, "site": {"exception": type(e).__name__},
                                "msg": "exception escaped the tracing session: " + "".join(traceback.format_exception(type(e), e, e.__traceback__))[-800:]}],
                "digest": "escaped", "nontrivial": True, "evaluated": 1}
    sampling_on = bool(rate) and rate > 1
    all_mode = (not sampling_on) or (mode == "A" and set(plan["draws"]) == {0})
    none_mode = sampling_on and mode == "A" and set(plan["draws"]) == {1}
    if mode == "A" and sampling_on and stand_in.consulted == 0:
        # the seam was bypassed (e.g. `from random import randrange`): treat as unknown draws
        all_mode = none_mode = False
    V, evaluated, info, calls, comps, matched = TT.check(lp, J, logger.logs, plan["k"], get_type, prefix="C18", sampled=not all_mode, admitted=admitted)
    for v in V:
        if v["clause"] in RENAME:
            v["clause"] = RENAME[v["clause"]]
        elif v["clause"] not in ("C18.subset-faithful", "C18.no-residue", "C18.all-when-off"):
            v["clause"] = "C18.subset-faithful"
    V.extend(c02.residue_violations("C18", lp, residue, calls, comps))
    if none_mode and info["logged"] > 0:
        V.append({"clause": "C18.none-when-skipped", "cause": None, "site": {"logged": info["logged"]},
                  "msg": "every sampling draw was non-zero at rate %r but %d traces were logged" % (rate, info["logged"])})
    probes = {}
    stats = {"completed_calls": info["completed"], "logged_traces": info["logged"]}
    if mode == "R":
        n = sum(1 for c in comps if admitted(c.fid))
        got = info["logged"]
        p = 1.0 / rate
        sd = math.sqrt(n * p * (1 - p))
        lo, hi = n * p - 6 * sd - 1, n * p + 6 * sd + 1
        evaluated += 1
        probes["rate band evaluated"] = 1
        if not (lo <= got <= hi):
            V.append({"clause": "C18.rate", "cause": None, "site": {"rate": rate, "calls": n, "traced": got},
                      "msg": "rate %d: %d of %d calls traced, outside the 6-sigma band [%.1f, %.1f]" % (rate, got, n, lo, hi)})
    if sampling_on and any(len(c.yields) > 1 for c in comps):
        probes["sampled run with a multi-yield generator"] = 1
    if any(v.get("cause") == "sampled_midlife_start" for v in V):
        probes["trace started on a resumed generator"] = 1
    if all_mode:
        probes["all-when-off run"] = 1
    if none_mode:
        probes["none-when-skipped run"] = 1
    return {
        "violations": V,
        "digest": c02.event_digest(lp, J, logger),
        "sig": c02.sig_of(J, lp) if mode != "R" else None,
        "nontrivial": info["completed"] > 0,
        "evaluated": evaluated,
        "probes": probes,
        "faults": {"rng_scripted": stand_in.consulted} if stand_in else {"rng_seeded": 1},
        "stats": stats,
    }
