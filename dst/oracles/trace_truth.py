"""Oracle for C02 / C18: logged CallTraces versus the ground truth the program recorded about itself."""
from dst.world import tnorm as T
from dst.world.program import named_params


class Call:
    __slots__ = ("cid", "fid", "params", "hidx", "yields", "rebinds", "awaits", "end", "end_idx", "end_key",
                 "ret", "exc", "at_yield", "resumptions", "states", "state_at", "params_obj", "await_idx", "mu_times", "last_kind", "delegates", "caught", "bypass", "unstarted")

    def __init__(self, cid, fid, params, hidx):
        self.cid, self.fid, self.params, self.hidx = cid, fid, params, hidx
        self.yields = []      # (journal idx, value)
        self.rebinds = []     # (journal idx, pname, value)
        self.awaits = 0
        self.end = None       # 'R' | 'X'
        self.end_idx = None
        self.end_key = None
        self.ret = None
        self.exc = None
        self.at_yield = False  # ended by an exception raised at a yield / await (throw, close, drop)
        self.state_at = _identity_state
        self.params_obj = None
        self.await_idx = []   # journal indices of the A records (await suspensions)
        self.last_kind = "E"  # kind of the last journal record this activation wrote itself
        self.delegates = []   # cids of generators this one delegated to with `yield from`
        self.caught = False   # a thrown exception was caught at a yield and the body has not yielded again yet
        self.unstarted = None  # (callee, args, kwargs): the activation began and ended inside throw() (body never ran)
        self.bypass = set()   # journal indices of yields that were the direct result of a throw() (see merged())
        self.mu_times = _no_times


def _identity_state(obj, idx):
    return obj


def _no_times(obj):
    return ()


def parse_journal(J):
    """Calls of the run with the values as they were at the moment that matters: parameters as bound at entry, the return
    value at the return, yielded values at their yield.  Containers that the program mutated in place later are replaced by
    the journaled copy of their earlier state (MU records)."""
    calls, order = _parse_journal(J)
    mus = {}
    for idx, rec in enumerate(J):
        if rec[0] == "MU":
            mus.setdefault(id(rec[2]), []).append((idx, rec[3]))
    if not mus:
        return calls, order

    def state_at(obj, idx):
        """obj as it was right after journal position idx (the state before the first later mutation)."""
        for i, snap in mus.get(id(obj), ()):
            if i > idx:
                return snap
        return obj

    def mu_times(obj):
        return [i for i, _ in mus.get(id(obj), ())]

    for c in calls.values():
        c.state_at = state_at
        c.mu_times = mu_times
        c.params_obj = dict(c.params)
        c.params = {n: state_at(v, c.cid) for n, v in c.params.items()}
        c.yields = [(i, state_at(v, i)) for i, v in c.yields]
        if c.end == "R":
            c.ret = state_at(c.ret, c.end_idx)
    return calls, order


def _parse_journal(J):
    calls = {}
    by_handle = {}
    order = []  # completed calls in completion order
    in_throw = None
    throw_members = set()
    bypass_for = {}   # journal index of a Y record -> cids of delegating generators the value did not pass through
    for idx, rec in enumerate(J):
        t = rec[0]
        if t == "TH":
            # generator.throw(): the frames that are suspended in a `yield from` at this moment hand the exception down without
            # being resumed, and the first value yielded below them comes back as throw()'s result without passing through them
            chain = set()
            c = by_handle.get(rec[1])
            while c is not None and c.last_kind == "YF" and c.delegates and c.delegates[-1] in calls and calls[c.delegates[-1]].end is None:
                chain.add(c.cid)
                c = calls[c.delegates[-1]]
            in_throw = chain
            # the activations the exception travels through (delegating frames + the one that receives it); only a value yielded
            # by one of them - or by a generator one of them delegates to from now on - is the result of this throw()
            throw_members = set(chain) | ({c.cid} if c is not None else set())
        elif t == "TE":
            in_throw = None
        elif in_throw is not None:
            # a delegating frame that writes a record of its own has been resumed (its delegate finished or it caught the
            # exception itself): from then on values pass through it again
            owner = rec[1] if t in ("Y", "B", "A", "RZ", "C", "MU", "RND", "YF", "R") else (rec[3] if t == "XS" and len(rec) > 3 else (rec[4] if t == "XH" and len(rec) > 4 else None))
            if owner in in_throw:
                in_throw = in_throw - {owner}
            if t == "YF" and rec[1] in throw_members:
                throw_members.add(rec[2])
            if t == "Y" and rec[1] in throw_members:
                bypass_for[idx] = in_throw
                in_throw = None
        if t == "EU":
            c = Call(idx, None, {}, rec[1])
            c.unstarted = rec[2]
            calls[idx] = c
            by_handle[rec[1]] = c
        elif t == "E":
            c = Call(rec[1], rec[2], rec[3], rec[4])
            calls[rec[1]] = c
            if rec[4] is not None:
                by_handle[rec[4]] = c
        elif t == "Y":
            calls[rec[1]].yields.append((idx, rec[2]))
            calls[rec[1]].last_kind = "Y"

        elif t == "B":
            calls[rec[1]].rebinds.append((idx, rec[2], rec[3]))
            calls[rec[1]].last_kind = "B"
        elif t == "A":
            calls[rec[1]].awaits += 1
            calls[rec[1]].await_idx.append(idx)
            calls[rec[1]].last_kind = "A"
        elif t in ("RZ", "C", "MU", "RND"):
            if rec[1] in calls:
                calls[rec[1]].last_kind = t
                if t == "C":
                    calls[rec[1]].caught = True
        elif t == "YF":
            calls[rec[1]].delegates.append(rec[2])
            calls[rec[1]].last_kind = "YF"
        elif t == "R":
            c = calls[rec[1]]
            c.end, c.end_idx, c.end_key, c.ret = "R", idx, idx, rec[2]
            order.append(c)
        elif t == "XS":
            c = calls.get(rec[1])
            if c is not None and c.end is None and J[rec[1]][0] == "E":
                c.end, c.end_idx, c.end_key, c.exc = "X", idx, idx - 0.5, rec[2]
                # a delegate generator (yield from) that was suspended at a yield when the exception arrived (thrown into /
                # closing the delegating generator) and wrote nothing afterwards: ended by an exception raised at that yield
                c.at_yield = c.last_kind == "Y"
                order.append(c)
            if len(rec) > 3 and rec[3] in calls:
                calls[rec[3]].last_kind = "XS"
        elif t == "XH":
            if len(rec) > 4 and rec[4] in calls:
                calls[rec[4]].last_kind = "XH"
            c = by_handle.get(rec[1])
            if c is not None and c.end is None:
                c.end, c.end_idx, c.end_key, c.exc, c.at_yield = "X", idx, idx - 0.5, rec[2], bool(rec[3]) and c.unstarted is None
                order.append(c)
        elif t in ("XC", "XD"):
            c = by_handle.get(rec[1])
            if c is not None and c.end is None:
                c.end, c.end_idx, c.end_key, c.exc, c.at_yield = "X", idx, idx - 0.5, "GeneratorExit", True
                order.append(c)
    # a generator yields what the generators it delegates to yield (values travel up through its frame)
    done = set()

    def merged(c):
        if c.cid in done:
            return c.yields
        done.add(c.cid)
        for d in c.delegates:
            if d in calls:
                # a value the delegate yields right after catching an exception that was thrown in comes back as the result of
                # throw() itself: CPython hands it to the caller without resuming the delegating frames, so it never passes
                # through them (no profile event there) - not counted as a yield of the delegating generator
                sub = merged(calls[d])
                c.yields = c.yields + [y for y in sub if y not in c.yields and c.cid not in bypass_for.get(y[0], ())]
        c.yields.sort(key=lambda y: y[0])
        return c.yields

    for c in calls.values():
        if c.delegates:
            merged(c)
    order.sort(key=lambda c: c.end_key)
    return calls, order


def definite(lp, f):
    """Is a call of f definitely resolvable by construction (DESIGN.md section 3, C02)?"""
    kind = f["kind"]
    if f.get("proxied"):
        return False
    if kind in ("func", "wrapped", "inner"):
        return True
    if kind in ("sproperty", "cproperty"):
        # settable properties and functools.cached_property are outside what the tracer's lookup resolves by design
        # (only django's cached_property is special-cased): unknown resolvability - at most one faithful trace
        return False
    cls = next(c for c in lp.spec["classes"] if c["name"] == f["cls"])
    nested = bool(cls.get("outer"))
    if not nested:
        return True
    if kind == "staticmethod":
        return False
    # nested class: resolvable through the receiver only; not if it can be reached via super()
    for g in lp.spec["funcs"]:
        if g is not f and g.get("super") and g["name"] == f["name"]:
            return False
    return True


def expected_args(call, f, gt):
    return {n: T.tnorm(gt(call.params[n])) for n in named_params(f["params"]) if n in call.params}


def check(lp, J, logs, k, get_type, prefix="C02", sampled=False, tracer_residue=None, live_frames=None, admitted=None, stats=None, traced_pred=None, exempt=None):
    """Returns (violations, evaluated_count, info).

    logs: list of (CallTrace, journal_len_at_log_time)
    admitted: optional predicate fid -> bool (code filter model); non-admitted calls must not be logged.
    """
    V = []
    gt = lambda v: get_type(v, k)  # noqa: E731
    # twin modules (equal-but-not-identical code objects) are judged like any other function unless the
    # caller names a way in which the tree under test can confuse them (C17: the filter's verdict cache)
    conflict_pred = traced_pred if traced_pred is not None else NO_CONFLICT
    calls, order = parse_journal(J)
    resolve_unstarted(lp, calls, order)
    evaluated = 0
    # --- map logs to fixture functions
    flogs = []
    foreign = 0
    for tr, pos in logs:
        code = getattr(getattr(tr, "func", None), "__code__", None)
        fid = lp.code.get(id(code))
        if fid is None:
            # equal-but-not-identical code objects: still a fixture function?
            foreign += 1
            continue
        flogs.append((fid, tr, pos))
    comps = [c for c in order if c.fid != 0]
    # exact alignment: a trace is logged at the 'return' event of its frame, i.e. at a known journal
    # position (right after the R record / right before the site's X record)
    want = {}
    for c in comps:
        exp_pos = c.end_idx + 1 if c.end == "R" else c.end_idx
        want.setdefault((c.fid, exp_pos), []).append(c)
    def align_exact():
        Vx, matched, taken, last_key = [], [], set(), None
        for fid, tr, pos in flogs:
            f = lp.funcs[fid]
            cands = [c for c in want.get((fid, pos), []) if c.cid not in taken]
            adm_ok = bool(cands) and (admitted(fid) if admitted else True)
            if not cands or not adm_ok:
                Vx.append({"clause": prefix + (".subset-faithful" if sampled else ".once"), "cause": "code_equality_ignores_filename" if twin_conflict(lp, fid, conflict_pred) else None,
                           "site": {"fid": fid, "kind": f["kind"], "body": f["body"], "log_pos": pos, "admitted": (admitted(fid) if admitted else True)},
                           "msg": "logged trace of %s matches no completed admitted call at that moment (duplicate, early, late, or not admitted)" % fname(f)})
                continue
            c = cands[0]
            if len(cands) > 1:
                # several calls of the same function completed at this journal position (a callee
                # returned and its caller then unwound): under sampling either may be the logged one
                scored = []
                for n_c, cand in enumerate(cands):
                    pr = faithful(prefix, lp, cand, lp.funcs[cand.fid], tr, gt, sampled)
                    scored.append((sum(1 for x in pr if not x.get("cause")), len(pr), n_c, cand))
                c = min(scored, key=lambda t: t[:3])[3]
            taken.add(c.cid)
            matched.append((c, tr))
            if last_key is not None and c.end_key < last_key:
                Vx.append(viol(prefix + ".order", None, c, f, "traces logged out of completion order"))
            last_key = c.end_key
        for c in comps:
            if c.cid in taken:
                continue
            f = lp.funcs[c.fid]
            if admitted and not admitted(c.fid):
                continue
            if sampled or not definite(lp, f):
                continue
            if exempt is not None and exempt(c):
                continue   # an injected fault hit the tracer while this very call started: its trace may legitimately be lost
            Vx.append(missing(prefix, c, f, lp, conflict_pred))
        return Vx, matched

    def align_by_order():
        """Tolerant alignment: the property only demands one trace per completed call in completion
        order, not that it is handed over at the very moment the frame returns. Traces may arrive
        late (never before the call completed)."""
        Vx, matched = [], []
        p = 0
        for c in comps:
            f = lp.funcs[c.fid]
            adm = admitted(c.fid) if admitted else True
            exp_pos = c.end_idx + 1 if c.end == "R" else c.end_idx
            if p < len(flogs) and flogs[p][0] == c.fid and adm and flogs[p][2] >= exp_pos:
                matched.append((c, flogs[p][1]))
                p += 1
                continue
            if not adm or sampled or not definite(lp, f):
                continue
            if exempt is not None and exempt(c):
                continue
            Vx.append(missing(prefix, c, f, lp, conflict_pred))
        for fid, tr, pos in flogs[p:]:
            f = lp.funcs[fid]
            Vx.append({"clause": prefix + (".subset-faithful" if sampled else ".once"), "cause": "code_equality_ignores_filename" if twin_conflict(lp, fid, conflict_pred) else None,
                       "site": {"fid": fid, "kind": f["kind"], "body": f["body"], "log_pos": pos, "admitted": (admitted(fid) if admitted else True)},
                       "msg": "logged trace of %s matches no completed admitted call in completion order (duplicate, early, out of order, or not admitted)" % fname(f)})
        return Vx, matched

    Vx, matched = align_exact()
    if any(not v.get("cause") for v in Vx):
        # the exact-moment alignment failed: before reporting, try the order-only reading of the property
        Vo, mo = align_by_order()
        if sum(1 for v in Vo if not v.get("cause")) < sum(1 for v in Vx if not v.get("cause")):
            Vx, matched = Vo, mo
    V.extend(Vx)
    evaluated += len(comps)
    # --- per-trace faithfulness
    for c, tr in matched:
        f = lp.funcs[c.fid]
        if twin_conflict(lp, c.fid, conflict_pred):
            # equal-but-not-identical code objects: which copy a trace is attributed to is the known
            # cache defect (reported under .once); per-trace clauses are not judged for these
            continue
        evaluated += 1
        V.extend(faithful(prefix, lp, c, f, tr, gt, sampled))
    info = {"completed": len(comps), "logged": len(flogs), "foreign_logs": foreign, "matched": len(matched)}
    return V, evaluated, info, calls, comps, matched


def resolve_unstarted(lp, calls, order):
    """Activations that began and ended inside throw() on a generator / coroutine that had not started: which function it
    was and what its named parameters were bound to follows from the callable and the arguments the site journaled."""
    import inspect

    for c in list(calls.values()):
        if c.unstarted is None or c.fid is not None:
            continue
        callee, args, kwargs = c.unstarted
        try:
            func = getattr(callee, "__func__", callee)
            while hasattr(func, "__wrapped__"):
                func = func.__wrapped__
            fid = lp.code.get(id(func.__code__))
            sig = inspect.signature(callee)
            ba = sig.bind(*args, **kwargs)
            ba.apply_defaults()
            params = {n: v for n, v in ba.arguments.items() if sig.parameters[n].kind not in (inspect.Parameter.VAR_POSITIONAL, inspect.Parameter.VAR_KEYWORD)}
            recv = getattr(callee, "__self__", None)
            if recv is not None and fid is not None:
                first = lp.funcs[fid]["params"][0]["n"] if lp.funcs[fid]["params"] else None
                if first in ("self", "cls"):
                    params = dict({first: recv}, **params)
        except Exception:
            fid = None
        if fid is None:
            calls.pop(c.cid, None)
            if c in order:
                order.remove(c)
            continue
        # (as of the moment of the throw: a shared container may have been mutated in place since)
        c.fid, c.params_obj, c.params = fid, dict(params), {n: c.state_at(v, c.cid) for n, v in params.items()}


def twin_related(lp, fid):
    """Does this function exist twice with equal-but-not-identical code objects (twin modules)?"""
    f = lp.funcs.get(fid) or {}
    if "twin_of" in f or "src_fid" in f:
        return True
    return any(g.get("twin_of") == fid or (g.get("src_fid") == fid and g is not f) for g in lp.funcs.values())


def NO_CONFLICT(fid, partner):
    return False


NO_CONFLICT.takes_pair = True


def twin_partner(lp, fid):
    f = lp.funcs.get(fid) or {}
    if "twin_of" in f:
        return f["twin_of"]
    if "src_fid" in f:
        # inner function of a twin: partner is the inner function of the original
        return f["src_fid"]
    for g in lp.funcs.values():
        if g.get("twin_of") == fid or (g.get("src_fid") == fid and g is not f):
            return g["fid"]
    return None


def twin_conflict(lp, fid, admitted):
    """The tracer's code-keyed cache can confuse this function with its twin only if BOTH copies
    are traced (a copy the filter rejects never enters the cache)."""
    p = twin_partner(lp, fid)
    if p is None:
        return False
    if admitted is None:
        return True
    if getattr(admitted, "takes_pair", False):
        return bool(admitted(fid, p))
    return bool(admitted(fid)) and bool(admitted(p))


def fname(f):
    return "%s%s[%s/%s]" % ((f.get("cls") + ".") if f.get("cls") else "", f["name"], f["kind"], f["body"])


def viol(clause, cause, c, f, msg):
    return {"clause": clause, "cause": cause,
            "site": {"fid": c.fid, "cid": c.cid, "kind": f["kind"], "body": f["body"], "end": c.end, "exc": c.exc, "at_yield": c.at_yield},
            "msg": msg}


def missing(prefix, c, f, lp, admitted=None):
    cause = None
    if f["body"] in ("gen", "agen") and c.end == "X" and c.at_yield:
        cause = "generator_exit_at_yield"
    elif twin_conflict(lp, c.fid, admitted):
        cause = "code_equality_ignores_filename"
    return viol(prefix + ".once", cause, c, f, "completed call of %s (end=%s %s) was not logged" % (fname(f), c.end, c.exc or ""))


def state_at_resumption(c, f, j):
    """Parameter values right after the j-th yield (j >= 1), i.e. when the generator is resumed for
    the (j+1)-th time; rebinding generated right after a yield action happens *after* resumption,
    so the values visible at the resumption event are those bound before the j-th yield."""
    vals = dict(c.params)
    if j <= 0:
        return vals
    yidx = c.yields[j - 1][0] if j - 1 < len(c.yields) else None
    if yidx is None:
        return vals
    objs = dict(c.params_obj if c.params_obj is not None else c.params)
    for idx, pn, v in c.rebinds:
        if idx < yidx:
            objs[pn] = v
    # in-place mutations up to that moment count: the values are taken as they were right after the j-th yield
    return {n: c.state_at(v, yidx) for n, v in objs.items()}


def states_while_suspended(c, lo, hi, rebind_prefix=None):
    """Parameter values as a trace started at a resumption would see them: the frame was suspended at journal position lo
    (a Y or A record) and resumed somewhere before hi.  Re-bindings up to lo count (all of them, or the first rebind_prefix);
    every in-place mutation of a bound container inside (lo, hi) gives one more candidate moment."""
    objs = dict(c.params_obj if c.params_obj is not None else c.params)
    rb = c.rebinds if rebind_prefix is None else c.rebinds[:rebind_prefix]
    for idx, pn, v in rb:
        if rebind_prefix is not None or idx < lo:
            objs[pn] = v
    times = {lo}
    for v in objs.values():
        for t in c.mu_times(v):
            if lo < t < (hi if hi is not None else t + 1):
                times.add(t)
    for t in sorted(times):
        yield {n: c.state_at(v, t) for n, v in objs.items()}


def faithful(prefix, lp, c, f, tr, gt, sampled):
    V = []
    names = named_params(f["params"])
    # func identity
    if lp.code.get(id(tr.func.__code__)) != c.fid:
        V.append(viol(prefix + ".func", None, c, f, "trace attributed to another function"))
    try:
        got_args = {n: T.tnorm(t) for n, t in tr.arg_types.items()}
        got_ret = T.tnorm(tr.return_type)
        got_y = T.tnorm(tr.yield_type)
    except Exception as e:  # malformed trace
        V.append(viol(prefix + ".args", None, c, f, "trace holds non-type objects: %r" % (e,)))
        return V
    exp_args = {n: T.tnorm(gt(c.params[n])) for n in names}
    exp_ret = T.tnorm(gt(c.ret)) if c.end == "R" else None
    ytypes = [T.tnorm(gt(v)) for _, v in c.yields]
    exp_y = T.union_norm(ytypes) if ytypes else None

    problems = []
    if got_args != exp_args:
        problems.append(("args", "arg types %r, expected %r" % (got_args, exp_args)))
    if got_ret != exp_ret:
        problems.append(("ret-absent-iff-exc" if (got_ret is None) != (exp_ret is None) else "ret", "return type %r, expected %r (end=%s)" % (got_ret, exp_ret, c.end)))
    if got_y != exp_y:
        problems.append(("yield-cover", "yield type %r, expected %r" % (got_y, exp_y)))
    if not problems:
        return V
    # ---- cause classifiers (known findings), evaluated for this site only
    cause_of = {}
    if f["body"] == "coro" and exp_y is None and got_y is not None:
        # F2: an await suspension is recorded as a yield of the object that travelled up to the
        # driver (here always the simulator's suspension token)
        # (coroutine functions of the simulated world never yield: any recorded yield type stems from
        # an await suspension - the trampoline's token, None from sleep(0), or an asyncio Future)
        cause_of["yield-cover"] = "coroutine_await_suspension"
    if f["body"] == "agen":
        # (also without a yield / await of its own: a suspension inside an awaited callee travels up through this frame)
        # listed finding: in an async generator the value handed to the profiler at a `yield` is CPython's internal wrapper object
        # (async_generator_wrapped_value), and an await suspension looks like a yield of whatever travels up to the event loop
        cause_of["yield-cover"] = "async_generator_yield_wrapped"
    if f["body"] in ("gen", "agen") and c.at_yield and c.end == "X":
        cause_of.setdefault("yield-cover", "generator_exit_at_yield")
    if sampled and f["body"] == "gen" and c.yields:
        # F5: trace started at a later resumption j >= 1 (after the j-th yield)
        for j in range(1, len(c.yields) + 1):
            y_j = T.union_norm([T.tnorm(gt(v)) for _, v in c.yields[j:]])
            hit = False
            for vals in states_while_suspended(c, c.yields[j - 1][0], c.yields[j][0] if j < len(c.yields) else c.end_idx):
                a_j = {n: T.tnorm(gt(vals[n])) for n in names}
                if got_args == a_j and got_y == y_j and got_ret == exp_ret:
                    hit = True
                    break
            if hit:
                for kname, _ in problems:
                    cause_of[kname] = "sampled_midlife_start"
                break
    if sampled and f["body"] == "agen":
        # trace started at a later resumption of the async generator (F5): arguments as they were while it was suspended
        # (a suspension inside an awaited callee leaves no record of this activation: any prefix of its re-bindings, at any
        # moment of its lifetime, is a candidate for what a trace started at a resumption saw)
        hit = False
        for p in range(0, len(c.rebinds) + 1):
            vals0 = dict(c.params)
            for _, pn, v in c.rebinds[:p]:
                vals0[pn] = v
            for vals in [vals0] + list(states_while_suspended(c, c.cid, c.end_idx, rebind_prefix=p)):
                if {n: T.tnorm(gt(vals[n])) for n in names} == got_args and got_ret == exp_ret:
                    hit = True
                    break
            if hit:
                break
        if hit:
            for kname, _ in problems:
                if kname != "yield-cover":
                    cause_of.setdefault(kname, "sampled_midlife_start")
    if sampled and f["body"] == "coro":
        # F5 for coroutines: trace started at a later resumption; arguments as after some prefix of
        # the re-bindings, yield type at most the suspension token (F2)
        tok_only = True
        hit_p = None
        for p in range(0, len(c.rebinds) + 1):
            vals = dict(c.params)
            for _, pn, v in c.rebinds[:p]:
                vals[pn] = v
            cands = [vals]
            # a shared container may have been mutated (by other code) while the coroutine was suspended: the values a trace
            # started at a later resumption sees are those of that moment
            # (suspensions inside awaited callees leave no record of this activation: every moment of its lifetime is a candidate)
            cands.extend(states_while_suspended(c, c.cid, c.end_idx, rebind_prefix=p))
            hit_later = False
            for n_c, vals in enumerate(cands):
                a_p = {n: T.tnorm(gt(vals[n])) for n in names}
                if got_args == a_p and tok_only and got_ret == exp_ret:
                    hit_p = p
                    hit_later = n_c > 0 and a_p != {n: T.tnorm(gt(cands[0][n])) for n in names}
                    break
            if hit_p is not None:
                for kname, _ in problems:
                    if kname != "yield-cover" or p > 0 or hit_later:
                        cause_of.setdefault(kname, "sampled_midlife_start")
                break
    for kname, msg in problems:
        clause = prefix + "." + kname if not sampled else prefix + ".subset-faithful"
        V.append(viol(clause, cause_of.get(kname), c, f, "%s: %s" % (fname(f), msg)))
    return V
