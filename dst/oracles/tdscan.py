"""TypedDict scanning at three observation points: runtime types, stored JSON rows, rendered stubs."""
import json
import typing


def is_atd(t):
    return isinstance(t, type) and issubclass(t, dict) and hasattr(t, "__total__") and getattr(t, "__name__", "") == "DUMMY_NAME"


def is_any_typeddict(t):
    return isinstance(t, type) and issubclass(t, dict) and hasattr(t, "__annotations__") and hasattr(t, "__total__")


def atd_fields(t):
    ann = t.__annotations__
    req = getattr(ann.get("required_fields"), "__annotations__", {})
    opt = getattr(ann.get("optional_fields"), "__annotations__", {})
    return req, opt


def scan_type(t, out=None, depth=0):
    """All anonymous-TypedDict nodes inside a runtime type: list of (required, optional) dicts."""
    if out is None:
        out = []
    if depth > 30 or t is None:
        return out
    if is_atd(t):
        req, opt = atd_fields(t)
        out.append((req, opt))
        for v in list(req.values()) + list(opt.values()):
            scan_type(v, out, depth + 1)
        return out
    if is_any_typeddict(t):
        out.append((dict(t.__annotations__), {}))
        return out
    for a in typing.get_args(t) or ():
        if a is not Ellipsis:
            scan_type(a, out, depth + 1)
    return out


def scan_json(d, out=None):
    """TypedDict nodes inside an encoded type dict: list of (required_keys, optional_keys)."""
    if out is None:
        out = []
    if isinstance(d, dict):
        if d.get("is_typed_dict") and d.get("qualname") == "DUMMY_NAME":
            et = d.get("elem_types", {})
            req = (et.get("required_fields") or {}).get("elem_types", {})
            opt = (et.get("optional_fields") or {}).get("elem_types", {})
            out.append((sorted(req), sorted(opt)))
            for v in list(req.values()) + list(opt.values()):
                scan_json(v, out)
            return out
        if d.get("is_typed_dict") and d.get("qualname") not in ("REQUIRED_TYPED_DICT_NAME", "OPTIONAL_TYPED_DICT_NAME"):
            out.append((sorted(d.get("elem_types", {})), []))
        for v in d.values():
            scan_json(v, out)
    elif isinstance(d, list):
        for v in d:
            scan_json(v, out)
    return out


def nested_dicts(v, out=None, depth=0):
    """Every exact dict nested inside a value (walking exact builtin containers only)."""
    import collections

    if out is None:
        out = []
    if depth > 30:
        return out
    t = type(v)
    if t is dict:
        out.append(v)
        for x in v.values():
            nested_dicts(x, out, depth + 1)
    elif t in (list, tuple, set):
        for x in v:
            nested_dicts(x, out, depth + 1)
    elif t is collections.defaultdict:
        for x in v.values():
            nested_dicts(x, out, depth + 1)
    return out


def has_witness(fields_req, fields_opt, dicts):
    """Is there an observed dict this TypedDict node could have been inferred from?
    (non-empty, all keys str, keys within the declared fields, containing every required key)"""
    F = set(fields_req) | set(fields_opt)
    for d in dicts:
        if not d:
            continue
        ks = set(d.keys())
        if not all(isinstance(k, str) for k in ks):
            continue
        if ks <= F and set(fields_req) <= ks:
            return True
    return False
