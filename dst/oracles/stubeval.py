"""Parse a rendered module stub, evaluate its annotations with the names the stub itself provides,
and decide whether runtime values belong to them (reference conformance oracle)."""
import ast
import collections
import collections.abc
import types
import typing

NoneType = type(None)


class StubError(Exception):
    pass


class ParsedStub:
    def __init__(self):
        self.functions = {}     # qualname -> {"params": {name: ann_src}, "ret": ann_src or None, "is_async": bool, "decorators": [...]}
        self.typed_dicts = {}   # class name -> ast.ClassDef
        self.dup_typed_dicts = set()  # TypedDict class names defined more than once in the stub
        self.classes = []       # non-TypedDict class names (possibly dotted)
        self.imports = []       # ast nodes
        self.import_names = set()
        self.ns = {}
        self.errors = []        # (kind, detail)


def parse(text):
    ps = ParsedStub()
    tree = ast.parse(text)
    for node in tree.body:
        if isinstance(node, (ast.Import, ast.ImportFrom)):
            ps.imports.append(node)
        elif isinstance(node, (ast.FunctionDef, ast.AsyncFunctionDef)):
            _add_func(ps, node, "")
        elif isinstance(node, ast.ClassDef):
            is_td = any((isinstance(b, ast.Name) and (b.id == "TypedDict" or b.id.endswith("TypedDict__RENAME_ME__"))) for b in node.bases)
            if is_td:
                if node.name in ps.typed_dicts and ast.dump(ps.typed_dicts[node.name]) != ast.dump(node):
                    ps.dup_typed_dicts.add(node.name)
                ps.typed_dicts[node.name] = node
            else:
                ps.classes.append(node.name)
                for sub in node.body:
                    if isinstance(sub, (ast.FunctionDef, ast.AsyncFunctionDef)):
                        _add_func(ps, sub, node.name + ".")
    return ps


def _add_func(ps, node, prefix):
    params = {}
    a = node.args
    for arg in list(a.posonlyargs) + list(a.args) + list(a.kwonlyargs) + ([a.vararg] if a.vararg else []) + ([a.kwarg] if a.kwarg else []):
        if arg.annotation is not None:
            params[arg.arg] = ast.unparse(arg.annotation)
    ps.functions[prefix + node.name] = {
        "params": params,
        "ret": ast.unparse(node.returns) if node.returns is not None else None,
        "is_async": isinstance(node, ast.AsyncFunctionDef),
        "decorators": [ast.unparse(d) for d in node.decorator_list],
    }


def build_namespace(ps, target_module):
    """Names the stub provides: its import block, its TypedDict classes, plus builtins and the
    target module's own classes."""
    ns = {}
    for node in ps.imports:
        src = ast.unparse(node)
        try:
            exec(src, ns)
        except Exception as e:
            ps.errors.append(("import", "%s: %r" % (src, e)))
    for k, v in vars(target_module).items():
        if isinstance(v, type) and getattr(v, "__module__", None) == target_module.__name__:
            ns.setdefault(k, v)
    # TypedDict classes: bases first
    pending = dict(ps.typed_dicts)
    progress = True
    while pending and progress:
        progress = False
        for name, node in list(pending.items()):
            base_names = [b.id for b in node.bases if isinstance(b, ast.Name)]
            if any(b in pending for b in base_names if b != name):
                continue
            del pending[name]
            progress = True
            # field annotations are kept as strings (forward references are legal inside class bodies of stubs)
            fields = {}
            for st in node.body:
                if isinstance(st, ast.AnnAssign) and isinstance(st.target, ast.Name):
                    fields[st.target.id] = ast.unparse(st.annotation)
            total = True
            for kw in node.keywords:
                if kw.arg == "total":
                    total = bool(ast.literal_eval(kw.value))
            ns[name] = StubTypedDict(name, fields, total, [ns[b] for b in base_names if isinstance(ns.get(b), StubTypedDict)])
    ps.ns = ns
    return ns


class StubTypedDict:
    """A TypedDict class defined by the stub (kept symbolic: own fields, totality, bases)."""

    def __init__(self, name, fields, total, bases):
        self.name, self.fields, self.total, self.bases = name, fields, total, bases

    def all_fields(self):
        req, opt = {}, {}
        for b in self.bases:
            r, o = b.all_fields()
            req.update(r)
            opt.update(o)
        (req if self.total else opt).update(self.fields)
        return req, opt

    def n_fields(self):
        r, o = self.all_fields()
        return len(r) + len(o)


def evaluate(src, ns):
    """Evaluate an annotation string using only the stub's names (plus builtins)."""
    g = dict(ns)
    return eval(src, g)


UNEVALUABLE = "field annotation does not evaluate"


class Fail:
    """Innermost reason why a value does not belong to a type."""

    def __init__(self, value, typ, why):
        self.value, self.typ, self.why = value, typ, why

    def __repr__(self):
        return "%s: value of type %s not in %r" % (self.why, type(self.value).__name__, self.typ)


def conforms(v, T, ns, depth=0, lenient_empty=False):
    """None if v belongs to T, else a Fail describing the innermost mismatch.
    lenient_empty: empty containers / generator objects are admitted anywhere (used only to
    *classify* a failure as 'explained by dropped empty-container members', never to pass it)."""
    if depth > 40:
        return None
    if lenient_empty and is_empty_container_like(v):
        return None
    if T is typing.Any or T is object:
        return None
    if T is None or T is NoneType:
        return None if v is None else Fail(v, T, "not None")
    if isinstance(T, str):
        if T not in ns:
            return Fail(v, T, "unresolvable forward reference")
        return conforms(v, ns[T], ns, depth + 1, lenient_empty)
    if isinstance(T, typing.ForwardRef):
        return conforms(v, T.__forward_arg__, ns, depth + 1, lenient_empty)
    if isinstance(T, StubTypedDict):
        if not isinstance(v, dict):
            return Fail(v, T.name, "not a dict")
        req, opt = T.all_fields()
        keys = set(v.keys())
        if not all(isinstance(k, str) for k in keys):
            return Fail(v, T.name, "non-string key")
        if not set(req) <= keys:
            return Fail(v, T.name, "required key missing")
        if not keys <= set(req) | set(opt):
            return Fail(v, T.name, "undeclared key")
        for k, val in v.items():
            src = req.get(k, opt.get(k))
            try:
                ft = evaluate(src, ns)
            except Exception as e:
                return Fail(val, src, UNEVALUABLE + ": %r" % (e,))
            f = conforms(val, ft, ns, depth + 1, lenient_empty)
            if f:
                return f
        return None
    origin = typing.get_origin(T)
    args = typing.get_args(T)
    if origin is typing.Union:
        last = None
        for a in args:
            f = conforms(v, a, ns, depth + 1, lenient_empty)
            if f is None:
                return None
            last = f if last is None or _deeper(f, last, v) else last
            if f.why.startswith(UNEVALUABLE):
                # an alternative that cannot even be evaluated with the stub's names: that, not the mismatch with a sibling, is the finding
                return f
        return last or Fail(v, T, "no union member")
    if origin in (list, set, frozenset):
        if not isinstance(v, origin):
            return Fail(v, T, "wrong container kind")
        if args:
            for e in v:
                f = conforms(e, args[0], ns, depth + 1, lenient_empty)
                if f:
                    return f
        return None
    if origin in (dict, collections.defaultdict):
        if not isinstance(v, origin):
            return Fail(v, T, "wrong container kind")
        if args:
            for k, val in v.items():
                f = conforms(k, args[0], ns, depth + 1, lenient_empty) or conforms(val, args[1], ns, depth + 1, lenient_empty)
                if f:
                    return f
        return None
    if origin is tuple:
        if not isinstance(v, tuple):
            return Fail(v, T, "not a tuple")
        if args == ():
            return None if len(v) == 0 else Fail(v, T, "non-empty tuple in Tuple[()]")
        if len(args) == 2 and args[1] is Ellipsis:
            for e in v:
                f = conforms(e, args[0], ns, depth + 1, lenient_empty)
                if f:
                    return f
            return None
        if len(args) != len(v):
            return Fail(v, T, "tuple length")
        for e, a in zip(v, args):
            f = conforms(e, a, ns, depth + 1, lenient_empty)
            if f:
                return f
        return None
    if origin is type:
        if not isinstance(v, type):
            return Fail(v, T, "not a class")
        if args and args[0] is not typing.Any:
            a = args[0]
            if isinstance(a, type) and not issubclass(v, a):
                return Fail(v, T, "not a subclass")
        return None
    if origin is collections.abc.Callable or T is typing.Callable:
        return None if callable(v) else Fail(v, T, "not callable")
    if origin in (collections.abc.Iterator, collections.abc.Generator, collections.abc.Iterable):
        return None if isinstance(v, collections.abc.Iterator) else Fail(v, T, "not an iterator")
    if origin is not None:
        try:
            return None if isinstance(v, origin) else Fail(v, T, "not an instance of origin")
        except TypeError:
            return Fail(v, T, "uncheckable")
    if isinstance(T, type):
        return None if isinstance(v, T) else Fail(v, T, "not an instance")
    return Fail(v, T, "not a type")


def _deeper(f, g, v):
    # prefer the failure that is *about a nested value* (more specific) over one about v itself
    return (f.value is not v) and (g.value is v)


def is_empty_container_like(v):
    t = type(v)
    if t in (list, set, dict, collections.defaultdict):
        return len(v) == 0
    if isinstance(v, types.GeneratorType):
        return True
    return False
