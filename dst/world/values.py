"""Value grammar: JSON value specs, their materialisation and generation.

spec forms:
  ["i",n] ["s",str] ["b",bool] ["f",x] ["n"] ["by",str]
  ["o",cls]  instance of user class     ["c",cls]  class object (user class or builtin name)
  ["fn",name] callable (builtin / lambda / plain function)     ["g"] generator object
  ["l",[..]] ["st",[..]] ["t",[..]] ["d",[[k,v]..]] ["dd",[[k,v]..]]
  ["tw",kind,id]  tripwire object (C03; see tripwires.py)
  ["lib",name]    an instance of a standard-library class (csv dialect, lock, BytesIO, Decimal, ...)
  ["fk",n]        a callable proxy whose __code__/__wrapped__ lookups raise RuntimeError the first n times (transient lookup fault)
  ["hb",name]     an object of a hidden builtin class (dict_keys, list_iterator, ...)
  ["sh",n,spec]   the session's n-th shared object (built once from spec, then the same object every time)
"""
import collections

BUILTIN_CLASSES = {"int": int, "str": str, "dict": dict, "ValueError": ValueError}


def _plain_function(x=None):
    return x


_LAMBDA = lambda: None  # noqa: E731
FNS = {"len": len, "lambda": _LAMBDA, "plain": _plain_function, "sorted": sorted, "method": [].append}


def _empty_gen():
    return
    yield  # pragma: no cover


def build(spec, classes, tw=None, shared=None):
    t = spec[0]
    if t == "sh":
        # one object per session, passed to several calls (and possibly mutated in place between / during them)
        if shared is None:
            return build(spec[2], classes, tw)
        if spec[1] not in shared:
            shared[spec[1]] = build(spec[2], classes, tw, shared)
        return shared[spec[1]]
    if t == "i":
        return spec[1]
    if t == "s":
        return spec[1]
    if t == "b":
        return bool(spec[1])
    if t == "f":
        return float(spec[1])
    if t == "n":
        return None
    if t == "by":
        return spec[1].encode()
    if t == "o":
        return classes[spec[1]]()
    if t == "c":
        return classes[spec[1]] if spec[1] in classes else BUILTIN_CLASSES[spec[1]]
    if t == "fn":
        return FNS[spec[1]]
    if t == "g":
        return _empty_gen()
    if t == "l":
        return [build(e, classes, tw, shared) for e in spec[1]]
    if t == "st":
        return {build(e, classes, tw, shared) for e in spec[1]}
    if t == "t":
        return tuple(build(e, classes, tw, shared) for e in spec[1])
    if t == "d":
        return {build(k, classes, tw, shared): build(v, classes, tw, shared) for k, v in spec[1]}
    if t == "dd":
        d = collections.defaultdict(list)
        for k, v in spec[1]:
            d[build(k, classes, tw, shared)] = build(v, classes, tw, shared)
        return d
    if t == "hb":
        return HIDDEN_BUILTINS[spec[1]]()
    if t == "lib":
        return LIB_VALUES[spec[1]]()
    if t == "fk":
        from . import rt

        return rt.FlakyCallable(spec[1])
    if t == "tw":
        return tw(spec)
    raise ValueError("bad value spec %r" % (spec,))


# values whose class lives in `builtins` but is not reachable by that name (a stored trace naming it can never be decoded again)
HIDDEN_BUILTINS = {"dict_keys": lambda: {"a": 1}.keys(), "dict_values": lambda: {"a": 1}.values(), "list_iterator": lambda: iter([1]),
                   "range_iterator": lambda: iter(range(2)), "builtin_function_or_method_self": lambda: type(len)}

def _lib_values():
    """Instances of standard-library classes, among them classes that live in private accelerator modules (_csv, _thread, _io, ...)
    whose public module exposes another object under the same name.  Only classes that can be imported back by
    (__module__, __qualname__) are offered: a stub can name them and a stored trace can be decoded."""
    import array
    import csv
    import datetime
    import decimal
    import fractions
    import importlib
    import io
    import itertools
    import pathlib
    import re
    import threading
    import uuid

    cands = {
        "csv_dialect": lambda: csv.get_dialect("excel"), "lock": lambda: threading.Lock(), "rlock": lambda: threading.RLock(), "bytesio": lambda: io.BytesIO(b"x"),
        "stringio": lambda: io.StringIO("x"), "decimal": lambda: decimal.Decimal(1), "date": lambda: datetime.date(2020, 1, 2), "fraction": lambda: fractions.Fraction(1, 2),
        "purepath": lambda: pathlib.PurePosixPath("a/b"), "pattern": lambda: re.compile("a"), "uuid": lambda: uuid.UUID(int=7), "array": lambda: array.array("i", [1]),
        "count": lambda: itertools.count(), "ordereddict_keys": lambda: decimal.Context(),
    }
    out = {}
    for name, mk in cands.items():
        try:
            t = type(mk())
            obj = importlib.import_module(t.__module__)
            for part in t.__qualname__.split("."):
                obj = getattr(obj, part)
            if obj is t:
                out[name] = mk
        except Exception:
            pass
    return out


LIB_VALUES = _lib_values()

HASHABLE_ATOMS = ("i", "s", "b", "f", "n", "by")


def gen_atom(rng, kn, classes):
    if kn.get("tw_p") and rng.random() < kn["tw_p"]:
        kn["_tw"][0] += 1
        return ["tw", rng.choice(kn["tw_kinds"]), kn["_tw"][0]]
    if kn.get("lib_values") and rng.random() < 0.08:
        return ["lib", rng.choice(sorted(LIB_VALUES))]
    if kn.get("flaky_p") and rng.random() < kn["flaky_p"]:
        return ["fk", rng.choice([1, 1, 2, 4])]
    if kn.get("hidden_builtins") and rng.random() < 0.06:
        return ["hb", rng.choice(["dict_keys", "dict_values", "list_iterator", "range_iterator"])]
    r = rng.random()
    if r < 0.25:
        return ["i", rng.choice([0, 1, 2, 7, -3])]
    if r < 0.45:
        return ["s", rng.choice(["", "x", "key", "a b"])]
    if r < 0.52:
        return ["b", rng.random() < 0.5]
    if r < 0.58:
        return ["f", rng.choice([0.5, 2.0])]
    if r < 0.70:
        return ["n"]
    if r < 0.74:
        return ["by", "ab"]
    if classes and r < 0.90:
        return ["o", rng.choice(classes)]
    if r < 0.94 and kn.get("class_objects", True):
        return ["c", rng.choice(classes + ["int", "str"]) if classes else "int"]
    if r < 0.98 and kn.get("callables", True):
        return ["fn", rng.choice(sorted(FNS))]
    if kn.get("genobjects", True):
        return ["g"]
    return ["i", 5]


def gen_hashable(rng, kn, classes, depth):
    r = rng.random()
    if depth > 0 and r < 0.15:
        return ["t", [gen_hashable(rng, kn, classes, depth - 1) for _ in range(rng.choice([0, 1, 2]))]]
    if r < 0.5:
        return ["s", rng.choice(["k1", "k2", "k3", "x", "yy"])]
    if r < 0.8:
        return ["i", rng.choice([0, 1, 2, 3])]
    if r < 0.85:
        return ["n"]
    if r < 0.9:
        return ["b", True]
    if classes and r < 0.95:
        return ["c", rng.choice(classes)]
    return ["f", 1.5]


def gen_dict_items(rng, kn, classes, depth):
    n = rng.choice(kn.get("dict_sizes", [0, 1, 1, 2, 3]))
    mode = rng.choice(["str", "str", "str", "nonstr", "mixed"])
    items, seen = [], set()
    for i in range(n):
        if mode == "str" or (mode == "mixed" and i % 2 == 0):
            k = ["s", "k%d" % rng.randrange(kn.get("key_space", 5))]
        else:
            k = gen_hashable(rng, kn, classes, 0)
        kk = repr(k)
        if k[0] == "b":
            kk = repr(["i", int(k[1])])
        if k[0] == "f" and float(k[1]).is_integer():
            kk = repr(["i", int(k[1])])
        if kk in seen:
            continue
        seen.add(kk)
        items.append([k, gen_value(rng, kn, classes, depth - 1)])
    return items


def gen_value(rng, kn, classes, depth=None):
    if depth is None:
        depth = kn.get("depth", 2)
    r = rng.random()
    if depth <= 0 or r < kn.get("atom_p", 0.55):
        return gen_atom(rng, kn, classes)
    c = rng.choice(kn.get("containers", ["l", "l", "st", "t", "t", "d", "d", "dd"]))
    if c == "ld":
        # list of small string-key dicts with differing key sets (TypedDict merges with optional keys)
        ks = kn.get("key_space", 5)
        return ["l", [["d", [[["s", "k%d" % rng.randrange(ks)], gen_atom(rng, kn, classes)] for _ in range(rng.choice([1, 1, 2]))][:1 + rng.randrange(2)]]
                      for _ in range(rng.choice([1, 2, 2, 3]))]]
    if c == "l":
        return ["l", [gen_value(rng, kn, classes, depth - 1) for _ in range(rng.choice([0, 1, 2, 3]))]]
    if c == "st":
        return ["st", [gen_hashable(rng, kn, classes, depth - 1) for _ in range(rng.choice([0, 1, 2, 3]))]]
    if c == "t":
        return ["t", [gen_value(rng, kn, classes, depth - 1) for _ in range(rng.choice([0, 1, 2, 3]))]]
    if c == "d":
        return ["d", gen_dict_items(rng, kn, classes, depth)]
    return ["dd", [[gen_hashable(rng, kn, classes, 0), gen_value(rng, kn, classes, depth - 1)] for _ in range(rng.choice([0, 1, 2]))]]


def gen_big_container(rng):
    """A large homogeneous container (16..40 items): the kind of value an identity-keyed cache would remember."""
    n = rng.choice([rng.randint(16, 40), rng.randint(16, 40), 260, 300, 520])
    kind = rng.choice(["l", "l", "d", "st"])
    if kind == "l":
        return ["l", [["i", i % 5] for i in range(n)]]
    if kind == "d":
        return ["d", [[["s", "key%d" % i], ["i", i]] for i in range(n)]]
    return ["st", [["i", i] for i in range(n)]]


BURST_FAMILIES = ["tuples", "atoms", "dicts", "lists", "mixed", "dictlists", "empties", "bigsets"]


def gen_burst_value(rng, family, classes, kn):
    """Values for a burst of many calls of one function (many traces merged at one position)."""
    if family == "tuples":
        kind = rng.choice(["i", "s", "i", "s", "f", "n"])
        mk = {"i": lambda: ["i", rng.randrange(3)], "s": lambda: ["s", rng.choice(["a", "b"])], "f": lambda: ["f", 0.5], "n": lambda: ["n"]}[kind]
        return ["t", [mk() for _ in range(rng.randrange(0, 7))]]
    if family == "atoms":
        r = rng.randrange(9)
        return [["i", 1], ["s", "x"], ["f", 1.5], ["n"], ["by", "ab"], ["b", True], ["o", rng.choice(classes)] if classes else ["i", 2],
                ["c", rng.choice(classes)] if classes else ["s", "y"], ["fn", "len"]][r]
    if family == "dicts":
        ks = kn.get("key_space", 5)
        n = rng.choice([1, 1, 2])
        keys = rng.sample(range(ks), min(n, ks))
        return ["d", [[["s", "k%d" % k], gen_atom(rng, kn, classes)] for k in keys]]
    if family == "bigsets":
        # sets / dicts that are either homogeneous or hold more than five unrelated element types in ONE value
        hetero = [["i", 3], ["s", "a"], ["n"], ["f", 2.5], ["by", "x"], ["t", [["i", 1]]], ["t", []]] + ([["c", c] for c in classes[:2]] if classes else [["c", "int"]])
        r = rng.random()
        if r < 0.3:
            return ["st", [["i", i] for i in range(rng.randint(1, 3))]]
        if r < 0.6:
            return ["st", rng.sample(hetero, rng.randint(6, len(hetero)))]
        if r < 0.8:
            return ["d", [[["s", "k%d" % i], x] for i, x in enumerate(rng.sample(hetero, rng.randint(6, len(hetero))))]]
        return ["d", [[["s", "k0"], ["i", 1]]]]
    if family == "empties":
        # empty and non-empty containers of several kinds at one position ([], [1], set(), {1}, {}, {1: 2}, (), (1,))
        return [["l", []], ["l", [["i", 1]]], ["st", []], ["st", [["i", 1]]], ["d", []], ["d", [[["i", 1], ["i", 2]]]], ["t", []], ["t", [["i", 1]]],
                ["dd", []], ["l", [["s", "x"]]]][rng.randrange(10)]
    if family == "dictlists":
        # lists of small string-key dicts over a tiny key space with few value types: across the calls of a burst the same key is
        # required in one inferred TypedDict, optional in another, with different value types (merges of merges)
        mk = lambda: [["i", 1], ["s", "x"], ["n"], ["f", 0.5]][rng.randrange(4)]  # noqa: E731
        out = []
        for _ in range(rng.choice([1, 2, 2, 3])):
            keys = rng.sample(range(3), rng.choice([1, 2, 2, 3]))
            out.append(["d", [[["s", "k%d" % k], mk()] for k in sorted(keys)]])
        return ["l", out]
    if family == "lists":
        return ["l", [gen_burst_value(rng, rng.choice(["atoms", "dicts", "tuples"]), classes, kn) for _ in range(rng.randrange(0, 3))]]
    return gen_value(rng, kn, classes)
