"""Scripts: generation (plan side, pure JSON) and materialisation / execution (executor side).

The top-level driver is itself an instance of the body template (fid 0), so the schedule of the
whole run - which live generator / coroutine handle advances next, which call nests in which -
is one recursive action list that the seeded scheduler generated and that replays exactly.
"""
from . import program as P
from . import rt
from . import values as V

# ------------------------------------------------------------------------------------------
# spec helpers (pure)


def c3(spec, name, _memo=None):
    memo = _memo if _memo is not None else {}
    if name in memo:
        return memo[name]
    c = next(x for x in spec["classes"] if x["name"] == name)
    seqs = [list(c3(spec, b, memo)) for b in c["bases"]] + [list(c["bases"])]
    res = [name]
    while True:
        seqs = [s for s in seqs if s]
        if not seqs:
            break
        for s in seqs:
            cand = s[0]
            if not any(cand in t[1:] for t in seqs):
                break
        else:
            raise ValueError("inconsistent MRO")
        res.append(cand)
        for s in seqs:
            if s and s[0] == cand:
                del s[0]
    memo[name] = res
    return res


def resolve_attr(spec, clsname, attr):
    """fid of the function that static lookup of `attr` on class clsname finds (or None)."""
    for c in c3(spec, clsname):
        for f in spec["funcs"]:
            if f.get("cls") == c and f["name"] == attr:
                return f["fid"]
    return None


def super_target(spec, f, recv_cls):
    """fid reached by super().name from method f when the receiver's class is recv_cls."""
    mro = c3(spec, recv_cls)
    if f["cls"] not in mro:
        return None
    for c in mro[mro.index(f["cls"]) + 1:]:
        for g in spec["funcs"]:
            if g.get("cls") == c and g["name"] == f["name"]:
                return g["fid"]
    return None


def receivers(spec, f):
    """Classes on which attribute lookup of f's name statically resolves to f."""
    return [c["name"] for c in spec["classes"] if resolve_attr(spec, c["name"], f["name"]) == f["fid"]]


def all_funcs(spec):
    out = {}
    for f in spec["funcs"]:
        out[f["fid"]] = f
        if f.get("inner"):
            out[f["inner"]["fid"]] = dict(f["inner"], kind="inner", outer_fid=f["fid"], module=f["module"], cls=None)
    return out


# ------------------------------------------------------------------------------------------
# script generation


class Ctx:
    def __init__(self, rng, spec, kn):
        self.rng = rng
        self.spec = spec
        self.kn = kn
        self.next_h = 0
        self.classes = [c["name"] for c in spec["classes"]]
        self.budget = kn.get("budget", 30)
        self.shared = {}


def gen_arg_value(ctx):
    """Value for a named positional parameter: now and then one of the session's few shared objects (the same object reaches
    several calls; a large container, so that in-place mutations in between do not change how it looks from outside)."""
    rng = ctx.rng
    if ctx.kn.get("shared_p") and rng.random() < ctx.kn["shared_p"]:
        i = rng.randrange(3)
        if i not in ctx.shared:
            ctx.shared[i] = V.gen_big_container(rng) if rng.random() < 0.7 else V.gen_value(rng, dict(ctx.kn, tw_p=0, atom_p=0.0), ctx.classes)
        return ["sh", i, ctx.shared[i]]
    return V.gen_value(rng, ctx.kn, ctx.classes)


def gen_args(ctx, f, skip_receiver):
    rng = ctx.rng
    args, kwargs = [], {}
    params = f["params"][1:] if skip_receiver else f["params"]
    positional_ok = True
    for p in params:
        k = p["k"]
        if k in ("po", "pk"):
            if p.get("d") and rng.random() < 0.4:
                positional_ok = False
                continue
            v = gen_arg_value(ctx)
            if k == "pk" and (not positional_ok or rng.random() < 0.2):
                kwargs[p["n"]] = v
                positional_ok = False
            else:
                if not positional_ok:
                    if k == "po":
                        # cannot pass a positional-only parameter after skipping one: give all skipped ones... fall back
                        return gen_args_all_positional(ctx, f, skip_receiver)
                    kwargs[p["n"]] = v
                else:
                    args.append(v)
        elif k == "ko":
            if p.get("d") and rng.random() < 0.4:
                continue
            kwargs[p["n"]] = V.gen_value(rng, ctx.kn, ctx.classes)
        elif k == "var":
            if positional_ok:
                for _ in range(rng.choice([0, 0, 1, 2])):
                    args.append(V.gen_value(rng, ctx.kn, ctx.classes))
        elif k == "kw":
            if rng.random() < 0.5:
                kwargs["zz"] = V.gen_value(rng, ctx.kn, ctx.classes)
    return args, kwargs


def gen_args_all_positional(ctx, f, skip_receiver):
    args, kwargs = [], {}
    params = f["params"][1:] if skip_receiver else f["params"]
    for p in params:
        if p["k"] in ("po", "pk"):
            args.append(V.gen_value(ctx.rng, ctx.kn, ctx.classes))
        elif p["k"] == "ko" and not p.get("d"):
            kwargs[p["n"]] = V.gen_value(ctx.rng, ctx.kn, ctx.classes)
    return args, kwargs


def pick_target(ctx, want_body=None):
    """Pick a callable target: returns (f, recv) or None."""
    rng = ctx.rng
    cands = []
    for f in ctx.spec["funcs"]:
        if want_body is not None and (f["body"] in want_body) is False:
            continue
        if f["kind"] in ("func", "wrapped"):
            cands.append((f, None))
        elif f["kind"] in ("method", "property", "sproperty", "cproperty"):
            rs = receivers(ctx.spec, f)
            if rs:
                cands.append((f, {"inst": rng.choice(rs)}))
        elif f["kind"] in ("classmethod", "staticmethod"):
            rs = receivers(ctx.spec, f)
            if rs:
                cands.append((f, {"cls": rng.choice(rs)} if rng.random() < 0.7 else {"inst": rng.choice(rs)}))
    if not cands:
        return None
    return rng.choice(cands)


def gen_exit(ctx, f):
    rng = ctx.rng
    r = rng.random()
    kn = ctx.kn
    if r < 0.30:
        return [{"a": "ret", "v": V.gen_value(rng, kn, ctx.classes)}]
    if r < 0.42:
        return [{"a": "retnone"}]
    if r < 0.50:
        return [{"a": "retconst"}]
    if r < 0.65 and kn.get("raises", True):
        return [{"a": "raise", "exc": rng.choice(["ValueError", "KeyError", "SimError", "RuntimeError"])}]
    return []  # fall off the end: implicit None


def gen_call_like(ctx, depth, recv_cls_of_caller=None):
    """One call / getattr / start action (recursively with the callee's script)."""
    rng = ctx.rng
    t = pick_target(ctx)
    if t is None:
        return None
    f, recv = t
    catch = rng.random() < 0.7
    if f["kind"] in ("property", "sproperty", "cproperty"):
        return {"a": "getattr", "fid": f["fid"], "recv": recv, "script": gen_script(ctx, f, depth - 1, recv_cls=recv["inst"]), "catch": catch}
    skip = f["kind"] in ("method", "classmethod")
    args, kwargs = gen_args(ctx, f, skip)
    rc = (recv or {}).get("inst") or (recv or {}).get("cls")
    if f["body"] in ("gen", "coro", "agen"):
        h = ctx.next_h
        ctx.next_h += 1
        return {"a": "start", "h": h, "fid": f["fid"], "recv": recv, "args": args, "kwargs": kwargs,
                "script": gen_script(ctx, f, depth - 1, recv_cls=rc), "kind": f["body"][0]}
    return {"a": "call", "fid": f["fid"], "recv": recv, "args": args, "kwargs": kwargs,
            "script": gen_script(ctx, f, depth - 1, recv_cls=rc), "catch": catch}


def gen_step(ctx):
    rng = ctx.rng
    if ctx.next_h == 0:
        return None
    h = rng.randrange(ctx.next_h)
    r = rng.random()
    if r < 0.62:
        return {"a": "step", "h": h, "mode": 0, "catch": rng.random() < 0.8}
    if r < 0.74:
        return {"a": "step", "h": h, "mode": 1, "v": V.gen_value(rng, ctx.kn, ctx.classes), "catch": rng.random() < 0.8}
    if r < 0.86:
        return {"a": "step", "h": h, "mode": 2, "v": rng.choice(["ValueError", "KeyError", "SimError"]), "catch": rng.random() < 0.8}
    if r < 0.93:
        return {"a": "step", "h": h, "mode": 3, "catch": True}
    return {"a": "step", "h": h, "mode": 4, "catch": True}


def gen_aio(ctx, depth):
    """A batch of fixture coroutines run as tasks on the simulated asyncio loop."""
    rng = ctx.rng
    tasks = []
    for _ in range(rng.choice([1, 2, 3, 4])):
        t = pick_target(ctx, want_body=("coro",))
        if t is None:
            break
        f, recv = t
        args, kwargs = gen_args(ctx, f, f["kind"] in ("method", "classmethod"))
        rc = (recv or {}).get("inst") or (recv or {}).get("cls")
        h = ctx.next_h
        ctx.next_h += 1
        tasks.append({"h": h, "fid": f["fid"], "recv": recv, "args": args, "kwargs": kwargs,
                      "script": gen_script(ctx, f, max(0, depth - 1), recv_cls=rc), "cancel_at": rng.randrange(6) if rng.random() < 0.25 else None})
    if not tasks:
        return None
    return {"a": "aio", "seed": rng.getrandbits(30), "tasks": tasks, "catch": True}


def gen_script(ctx, f, depth, recv_cls=None, top=False):
    """Action list for one activation of f (f None: the top-level driver)."""
    rng = ctx.rng
    acts = []
    n = rng.choice([0, 1, 1, 2, 2, 3]) if not top else rng.randint(ctx.kn.get("top_min", 3), ctx.kn.get("top_max", 14))
    body = f["body"] if f else "plain"
    names = P.named_params(f["params"]) if f else []
    for _ in range(n):
        if ctx.budget <= 0:
            break
        ctx.budget -= 1
        r = rng.random()
        if ctx.kn.get("rnd_p") and rng.random() < ctx.kn["rnd_p"]:
            acts.append({"a": "rnd"})
            continue
        if names and body not in ("coro", "agen") and ctx.kn.get("mutate_p") and rng.random() < ctx.kn["mutate_p"]:
            # mutate, in place, the container bound to a parameter (no-op at run time if it is not an exact list / dict / set)
            acts.append({"a": "mut", "p": rng.choice(names), "v": V.gen_atom(rng, dict(ctx.kn, tw_p=0), ctx.classes),
                         "key": rng.choice([["s", "mk"], ["s", "k1"], ["i", 9], ["s", "x"], ["n"]]),
                         # replace an existing item (the container keeps its length) instead of adding one
                         "rep": rng.choice([0, 1, 1, 2])})   # 2: rename a dict key (size unchanged)
            continue
        if body == "agen" and r < 0.6:
            if r < 0.35:
                acts.append({"a": "yield", "v": V.gen_value(rng, ctx.kn, ctx.classes), "catch": rng.random() < 0.3})
            else:
                acts.append({"a": "await"})
            if names and ctx.kn.get("rebind", True) and rng.random() < 0.3:
                acts.append({"a": "rebind", "p": rng.choice(names), "v": V.gen_value(rng, ctx.kn, ctx.classes)})
            continue
        if body == "gen" and depth > 0 and ctx.kn.get("yield_from") and rng.random() < 0.18:
            t = pick_target(ctx, want_body=("gen",))
            if t is not None:
                g, recv = t
                args, kwargs = gen_args(ctx, g, g["kind"] in ("method", "classmethod"))
                rc = (recv or {}).get("inst") or (recv or {}).get("cls")
                acts.append({"a": "yieldfrom", "fid": g["fid"], "recv": recv, "args": args, "kwargs": kwargs,
                             "script": gen_script(ctx, g, depth - 1, recv_cls=rc), "catch": rng.random() < 0.5})
                continue
        if body == "gen" and r < 0.45:
            acts.append({"a": "yield", "v": V.gen_value(rng, ctx.kn, ctx.classes), "catch": rng.random() < 0.3})
            if names and ctx.kn.get("rebind", True) and rng.random() < 0.4:
                acts.append({"a": "rebind", "p": rng.choice(names), "v": V.gen_value(rng, ctx.kn, ctx.classes)})
            continue
        if body == "coro" and r < 0.35:
            acts.append({"a": "await"})
            if names and ctx.kn.get("rebind", True) and rng.random() < 0.3:
                acts.append({"a": "rebind", "p": rng.choice(names), "v": V.gen_value(rng, ctx.kn, ctx.classes)})
            continue
        if body in ("coro", "agen") and r < (0.5 if body == "coro" else 0.7) and depth > 0:
            t = pick_target(ctx, want_body=("coro",))
            if t is not None:
                g, recv = t
                args, kwargs = gen_args(ctx, g, g["kind"] in ("method", "classmethod"))
                rc = (recv or {}).get("inst") or (recv or {}).get("cls")
                acts.append({"a": "awaitcall", "fid": g["fid"], "recv": recv, "args": args, "kwargs": kwargs,
                             "script": gen_script(ctx, g, depth - 1, recv_cls=rc), "catch": rng.random() < 0.7})
                continue
        if f and f.get("super") and recv_cls and depth > 0 and r < 0.6:
            tf = super_target(ctx.spec, f, recv_cls)
            if tf is not None:
                g = all_funcs(ctx.spec)[tf]
                if g["body"] == f["body"] == "plain" or g["kind"] == "property":
                    if g["kind"] == "property":
                        args, kwargs = [], {}
                    else:
                        args, kwargs = gen_args(ctx, g, True)
                    acts.append({"a": "super", "fid": tf, "args": args, "kwargs": kwargs,
                                 "script": gen_script(ctx, g, depth - 1, recv_cls=recv_cls), "catch": rng.random() < 0.7})
                    continue
        if f and f.get("inner") and depth > 0 and r < 0.55:
            g = dict(f["inner"], kind="inner")
            args, kwargs = gen_args(ctx, g, False)
            acts.append({"a": "inner", "fid": g["fid"], "args": args, "kwargs": kwargs,
                         "script": gen_script(ctx, g, depth - 1), "catch": rng.random() < 0.7})
            continue
        if top and ctx.kn.get("aio_p") and rng.random() < ctx.kn["aio_p"]:
            a = gen_aio(ctx, depth)
            if a:
                acts.append(a)
                continue
        if (top or r < 0.75) and ctx.next_h and rng.random() < (0.55 if top else 0.35):
            s = gen_step(ctx)
            if s:
                acts.append(s)
                continue
        if depth > 0:
            a = gen_call_like(ctx, depth)
            if a:
                acts.append(a)
                if a["a"] == "start" and rng.random() < 0.7:
                    acts.append({"a": "step", "h": a["h"], "mode": 0, "catch": rng.random() < 0.8})
                continue
    if f is not None and body == "agen":
        r = rng.random()
        if r < 0.3:
            acts.append({"a": "retnone"})
        elif r < 0.45 and ctx.kn.get("raises", True):
            acts.append({"a": "raise", "exc": rng.choice(["ValueError", "KeyError", "SimError", "RuntimeError"])})
    elif f is not None:
        if names and rng.random() < 0.12:
            # exit by returning a parameter object itself, after (possibly) re-binding it
            if rng.random() < 0.6:
                pn = rng.choice(names)
                acts.append({"a": "rebind", "p": pn, "v": V.gen_value(rng, ctx.kn, ctx.classes)})
                acts.append({"a": "retp", "p": pn})
            else:
                acts.append({"a": "retp", "p": rng.choice(names)})
        else:
            acts.extend(gen_exit(ctx, f))
    return acts


# ------------------------------------------------------------------------------------------
# materialisation


class Mat:
    def __init__(self, lp, tw=None):
        self.lp = lp
        self.tw = tw
        self.inner_handles = []
        self.aio_stats = []
        self.shared = {}
        self.notes = {}

    def val(self, spec):
        return V.build(spec, self.lp.classes, self.tw, self.shared)

    def callee(self, a):
        lp = self.lp
        f = lp.funcs[a["fid"]]
        recv = a.get("recv")
        if f["kind"] in ("func", "wrapped"):
            return lp.modules[f["module"]].__dict__[f["name"]]
        if recv and "inst" in recv:
            return getattr(lp.classes[recv["inst"]](), f["name"])
        return getattr(lp.classes[recv["cls"]], f["name"])

    def aio_closure(self, a):
        """Run a set of fixture coroutines as asyncio tasks on the simulated loop."""
        from . import simloop

        specs = []
        for t in a["tasks"]:
            callee = self.callee(t)
            args = tuple(self.val(v) for v in t["args"])
            kwargs = {n: self.val(v) for n, v in t["kwargs"].items()}
            specs.append((t["h"], (lambda c=callee, x=args, k=kwargs: c(*x, **k)), self.script(t["script"], hidx=t["h"]), t.get("cancel_at")))

        def run(_specs=specs, _seed=a["seed"], _box=self.aio_stats):
            _box.append(simloop.run_tasks(_seed, _specs))

        return run

    def script(self, acts, hidx=None):
        out = []
        for a in acts:
            k = a["a"]
            if k == "call":
                out.append((1, self.callee(a), tuple(self.val(v) for v in a["args"]), {n: self.val(v) for n, v in a["kwargs"].items()},
                            self.script(a["script"]), bool(a.get("catch"))))
            elif k == "getattr":
                out.append((2, self.lp.classes[a["recv"]["inst"]](), self.lp.funcs[a["fid"]]["name"], self.script(a["script"]), bool(a.get("catch"))))
            elif k == "super":
                out.append((3, tuple(self.val(v) for v in a["args"]), {n: self.val(v) for n, v in a["kwargs"].items()},
                            self.script(a["script"]), bool(a.get("catch"))))
            elif k == "inner":
                out.append((4, tuple(self.val(v) for v in a["args"]), {n: self.val(v) for n, v in a["kwargs"].items()},
                            self.script(a["script"]), bool(a.get("catch"))))
            elif k == "yield":
                out.append((5, self.val(a["v"]), bool(a.get("catch"))))
            elif k == "ret":
                out.append((6, self.val(a["v"])))
            elif k == "retnone":
                out.append((7,))
            elif k == "retconst":
                out.append((8,))
            elif k == "raise":
                out.append((9, rt.EXC[a["exc"]]))
            elif k == "rebind":
                out.append((10, a["p"], self.val(a["v"])))
            elif k == "start":
                out.append((11, a["h"], self.callee(a), tuple(self.val(v) for v in a["args"]), {n: self.val(v) for n, v in a["kwargs"].items()},
                            self.script(a["script"], hidx=a["h"]), a.get("kind", "g")))
            elif k == "step":
                m = a["mode"]
                v = None
                if m == 1:
                    v = self.val(a["v"])
                elif m == 2:
                    v = rt.EXC[a["v"]]
                out.append((12, a["h"], m, v, bool(a.get("catch"))))
            elif k == "aio":
                out.append((16, self.aio_closure(a)))
            elif k == "rnd":
                out.append((17,))
            elif k == "retp":
                out.append((18, a["p"]))
            elif k == "yieldfrom":
                out.append((20, self.callee(a), tuple(self.val(v) for v in a["args"]), {n: self.val(v) for n, v in a["kwargs"].items()},
                            self.script(a["script"]), bool(a.get("catch"))))
            elif k == "pyreset":
                # the program switches profiling off itself (a section profiler ending with sys.setprofile(None)); top level only
                def _reset(_notes=self.notes):
                    import sys as _sys

                    _sys.setprofile(None)
                    _notes["reset_at"] = len(rt.J)

                out.append((16, _reset))
            elif k == "mut":
                out.append((19, a["p"], self.val(a["v"]), self.val(a["key"]), int(a.get("rep") or 0)))
            elif k == "await":
                out.append((13,))
            elif k == "awaitcall":
                out.append((14, self.callee(a), tuple(self.val(v) for v in a["args"]), {n: self.val(v) for n, v in a["kwargs"].items()},
                            self.script(a["script"]), bool(a.get("catch"))))
        return (hidx, tuple(out))


_DRIVER = None


def get_driver():
    """The top-level driver: the body template instantiated as fid 0 in a harness namespace."""
    global _DRIVER
    if _DRIVER is None:
        f = {"fid": 0, "name": "_drive", "kind": "func", "params": [], "body": "plain"}
        src = P.HEADER + "\n".join(P.render_func(f)) + "\n"
        ns = {"__name__": "dst.world._drv"}
        exec(compile(src, "<dst-driver>", "exec"), ns)
        _DRIVER = ns["_drive"]
    return _DRIVER


def run_top(mat_script):
    """Run a materialised top-level script; every exception is caught at the sites (catch=True is
    forced for top-level actions by the generator) or here."""
    rt.P(mat_script)
    try:
        get_driver()()
    except BaseException as e:  # noqa
        if isinstance(e, (KeyboardInterrupt, SystemExit)):
            raise
        rt.R(("XTOP", type(e).__name__))


def finish_handles():
    """Drop all remaining handles (outside the tracing session)."""
    for k in list(rt.H):
        h = rt.H.pop(k, None)
        if h is None:
            continue
        obj = h[0]
        try:
            if obj is not None and h[2]:
                if len(h) > 4 and h[3] == "a":
                    # async generator: finish a pending asend/athrow awaitable, then drive aclose() to completion
                    aw = h[4]
                    h[4] = None
                    if aw is not None:
                        try:
                            aw.throw(GeneratorExit)
                        except BaseException:
                            pass
                    aw = obj.aclose()
                    try:
                        aw.send(None)
                    except BaseException:
                        pass
                    aw = None
                else:
                    obj.close()
        except BaseException:
            pass
