"""Canonical, JSON-able normal form of a runtime type object (union members as sorted sets).

Independent of MonkeyType's own helpers: uses typing.get_origin / get_args only.
"""
import json
import typing

NoneType = type(None)


def _is_typeddict(t):
    return isinstance(t, type) and issubclass(t, dict) and hasattr(t, "__annotations__") and hasattr(t, "__total__")


def tnorm(t):
    if t is None:
        return None
    if t is typing.Any:
        return "Any"
    if t is NoneType:
        return "None"
    if _is_typeddict(t):
        ann = t.__annotations__
        if t.__name__ == "DUMMY_NAME" and set(ann) == {"required_fields", "optional_fields"}:
            req = ann["required_fields"].__annotations__
            opt = ann["optional_fields"].__annotations__
            return ["ATD", {k: tnorm(v) for k, v in sorted(req.items())}, {k: tnorm(v) for k, v in sorted(opt.items())}]
        return ["TD", t.__name__, bool(getattr(t, "__total__", True)), {k: tnorm(v) for k, v in sorted(ann.items())}]
    origin = typing.get_origin(t)
    if origin is typing.Union:
        ms = [tnorm(a) for a in typing.get_args(t)]
        flat = []
        for m in ms:
            if isinstance(m, list) and m and m[0] == "U":
                flat.extend(m[1])
            else:
                flat.append(m)
        uniq = {json.dumps(m, sort_keys=True): m for m in flat}
        keys = sorted(uniq)
        if len(keys) == 1:
            return uniq[keys[0]]
        return ["U", [uniq[k] for k in keys]]
    if origin is not None:
        args = typing.get_args(t)
        name = getattr(t, "_name", None) or getattr(origin, "__name__", repr(origin))
        if origin is tuple and args == ():
            return ["Tuple", ["()"]]
        if origin is collections_abc_callable():
            return ["Callable", [repr(args)]]
        return [name, [("..." if a is Ellipsis else tnorm(a)) for a in args]]
    if t is typing.Callable:
        return "Callable"
    if isinstance(t, type):
        if t.__module__ == "builtins":
            return t.__qualname__
        return t.__module__ + "." + t.__qualname__
    name = getattr(t, "_name", None)
    if name:
        return "typing." + name
    if isinstance(t, typing.ForwardRef):
        return ["FWD", t.__forward_arg__]
    return repr(t)


def collections_abc_callable():
    import collections.abc

    return collections.abc.Callable


def members(n):
    """Union members of a normal form as a list."""
    if isinstance(n, list) and n and n[0] == "U":
        return list(n[1])
    return [n]


def union_norm(norms):
    flat = []
    for n in norms:
        flat.extend(members(n))
    uniq = {json.dumps(m, sort_keys=True): m for m in flat}
    keys = sorted(uniq)
    if not keys:
        return None
    if len(keys) == 1:
        return uniq[keys[0]]
    return ["U", [uniq[k] for k in keys]]


def key(n):
    return json.dumps(n, sort_keys=True)
