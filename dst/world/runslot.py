"""Hand-over point between the simulator and a script executed by `monkeytype run`."""
SLOT = {}


def go():
    from dst.world import driver

    driver.run_top(SLOT["top"])
