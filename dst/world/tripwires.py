"""Tripwire objects for C03: every user-definable hook journals (through a C-level append) and,
when armed, raises.  Nothing in the harness or in the generated program invokes these hooks, so an
entry in the hook journal that appears only in the traced run was caused by the tracer.
"""
import collections
import collections.abc
import types

HJ = []            # hook journal: (oid, hook, detail)
_A = HJ.append
ARMED = [False]    # inspect_raises: hooks raise TripError after journaling


class TripError(Exception):
    pass


LAST_RAISE = [None]   # journal length when a hook last raised (transient inspection fault)


def _hit(oid, hook, detail=None):
    _A((oid, hook, detail))
    a = ARMED[0]
    if a:
        if a is not True:
            ARMED[0] = a - 1   # transient fault: only the first n hook invocations raise
        from . import rt

        LAST_RAISE[0] = len(rt.J)
        raise TripError("%s %s" % (hook, detail))


def oid_of(obj):
    try:
        return object.__getattribute__(obj, "_oid")
    except Exception:
        return None


class GA:
    """__getattribute__ override: sees every attribute read, including __class__."""

    def __init__(self, oid):
        object.__setattr__(self, "_oid", oid)

    def __getattribute__(self, name):
        _hit(object.__getattribute__(self, "_oid"), "GA.__getattribute__", name)
        return object.__getattribute__(self, name)


class GT:
    """__getattr__ only (missing attributes)."""

    def __init__(self, oid):
        self._oid = oid

    def __getattr__(self, name):
        _hit(self.__dict__.get("_oid"), "GT.__getattr__", name)
        raise AttributeError(name)


class CG:
    """Callable with __getattr__."""

    def __init__(self, oid):
        self._oid = oid

    def __call__(self, *a, **k):
        return None

    def __getattr__(self, name):
        _hit(self.__dict__.get("_oid"), "CG.__getattr__", name)
        raise AttributeError(name)


class CP:
    """__class__ property override (a proxy that tells the truth, but notices being asked)."""

    def __init__(self, oid):
        self._oid = oid

    @property
    def __class__(self):
        _hit(self.__dict__.get("_oid"), "CP.__class__", None)
        return CP


class HE:
    """journaling __hash__ / __eq__ / __bool__ / __repr__ / __len__"""

    def __init__(self, oid):
        self._oid = oid

    def __hash__(self):
        _hit(self._oid, "HE.__hash__")
        return self._oid

    def __eq__(self, other):
        _hit(self._oid, "HE.__eq__")
        return self is other

    def __bool__(self):
        _hit(self._oid, "HE.__bool__")
        return True

    def __repr__(self):
        _hit(self._oid, "HE.__repr__")
        return "<HE>"

    def __len__(self):
        _hit(self._oid, "HE.__len__")
        return 1

    def __str__(self):
        _hit(self._oid, "HE.__str__")
        return "HE"


class L(list):
    def __iter__(self):
        _hit(self._oid, "L.__iter__")
        return list.__iter__(self)

    def __len__(self):
        _hit(self._oid, "L.__len__")
        return list.__len__(self)

    def __getitem__(self, i):
        _hit(self._oid, "L.__getitem__")
        return list.__getitem__(self, i)

    def __contains__(self, x):
        _hit(self._oid, "L.__contains__")
        return list.__contains__(self, x)

    def __bool__(self):
        _hit(self._oid, "L.__bool__")
        return True


class D(dict):
    def __iter__(self):
        _hit(self._oid, "D.__iter__")
        return dict.__iter__(self)

    def __len__(self):
        _hit(self._oid, "D.__len__")
        return dict.__len__(self)

    def keys(self):
        _hit(self._oid, "D.keys")
        return dict.keys(self)

    def values(self):
        _hit(self._oid, "D.values")
        return dict.values(self)

    def items(self):
        _hit(self._oid, "D.items")
        return dict.items(self)

    def __getitem__(self, k):
        _hit(self._oid, "D.__getitem__")
        return dict.__getitem__(self, k)

    def __contains__(self, k):
        _hit(self._oid, "D.__contains__")
        return dict.__contains__(self, k)


class DD(collections.defaultdict):
    def __iter__(self):
        _hit(self._oid, "DD.__iter__")
        return dict.__iter__(self)

    def keys(self):
        _hit(self._oid, "DD.keys")
        return dict.keys(self)

    def values(self):
        _hit(self._oid, "DD.values")
        return dict.values(self)

    def items(self):
        _hit(self._oid, "DD.items")
        return dict.items(self)

    def __len__(self):
        _hit(self._oid, "DD.__len__")
        return dict.__len__(self)


class S(set):
    def __iter__(self):
        _hit(self._oid, "S.__iter__")
        return set.__iter__(self)

    def __len__(self):
        _hit(self._oid, "S.__len__")
        return set.__len__(self)

    def __contains__(self, x):
        _hit(self._oid, "S.__contains__")
        return set.__contains__(self, x)


class T(tuple):
    def __iter__(self):
        _hit(self._oid, "T.__iter__")
        return tuple.__iter__(self)

    def __len__(self):
        _hit(self._oid, "T.__len__")
        return tuple.__len__(self)

    def __getitem__(self, i):
        _hit(self._oid, "T.__getitem__")
        return tuple.__getitem__(self, i)


class Meta(type):
    def __instancecheck__(cls, inst):
        _hit(-1, "Meta.__instancecheck__")
        return type.__instancecheck__(cls, inst)

    def __subclasscheck__(cls, sub):
        _hit(-1, "Meta.__subclasscheck__")
        return type.__subclasscheck__(cls, sub)

    def __eq__(cls, other):
        _hit(-1, "Meta.__eq__")
        return cls is other

    def __hash__(cls):
        _hit(-1, "Meta.__hash__")
        return type.__hash__(cls)

    def __repr__(cls):
        _hit(-1, "Meta.__repr__")
        return "<Meta class>"


class MI(metaclass=Meta):
    def __init__(self, oid):
        self._oid = oid


class Desc:
    """Side-effecting descriptor / lazy attribute."""

    def __init__(self, name):
        self.name = name

    def __get__(self, obj, owner):
        _hit(oid_of(obj) if obj is not None else -2, "Desc.__get__", self.name)
        return 42


class LazyProp:
    pass


_DS_CACHE = {}


def ds_class(names):
    """Class whose attributes named like the program's functions are side-effecting descriptors."""
    key = tuple(sorted(names))
    c = _DS_CACHE.get(key)
    if c is None:
        ns = {n: Desc(n) for n in names}
        ns["lazy"] = property(lambda self: _hit(oid_of(self), "DS.lazy property"))

        def __init__(self, oid):
            self._oid = oid

        ns["__init__"] = __init__
        c = type("DS", (), ns)
        _DS_CACHE[key] = c
    return c


class CallProxy:
    """Callable stand-in bound to a module global named like the function it wraps."""

    def __init__(self, func, oid):
        self.__dict__["_f"] = func
        self.__dict__["_oid"] = oid

    def __call__(self, *a, **k):
        return self.__dict__["_f"](*a, **k)

    def __getattr__(self, name):
        _hit(self.__dict__.get("_oid"), "CallProxy.__getattr__", name)
        raise AttributeError(name)


class UM(collections.abc.Mapping):
    """User-defined (pure Python) lazy mapping: every protocol method journals."""

    def __init__(self, oid):
        self._oid = oid
        self._d = {"a": 1}

    def __getitem__(self, k):
        _hit(self._oid, "UM.__getitem__")
        return self._d[k]

    def __iter__(self):
        _hit(self._oid, "UM.__iter__")
        return iter(self._d)

    def __len__(self):
        _hit(self._oid, "UM.__len__")
        return len(self._d)


KINDS = ["GA", "GT", "CG", "CP", "HE", "L", "D", "DD", "S", "T", "MI", "MIcls", "DS",
         # standard-library containers (exact types) that wrap / hold user objects: looking inside them runs the user's protocol methods
         "CM", "CMdd", "MP", "UD", "UL", "DQ", "OD", "FS", "CT"]
# tripwire kinds that may be bound to a module global of the fixture package (function lookup scans module globals)
GLOBAL_KINDS = ["GA", "GT", "CG", "CP", "HE", "MI", "MIcls", "L", "D"]
CALLABLE_KINDS = {"CG", "CallProxy"}


def _mk(o, oid):
    o._oid = oid
    return o


def factory(fnames):
    def make(spec):
        kind, oid = spec[1], spec[2]
        if kind == "GA":
            return GA(oid)
        if kind == "GT":
            return GT(oid)
        if kind == "CG":
            return CG(oid)
        if kind == "CP":
            return CP(oid)
        if kind == "HE":
            return HE(oid)
        if kind == "L":
            o = L([1, "x"])
        elif kind == "D":
            o = D({"k": 1})
        elif kind == "DD":
            o = DD(list)
            dict.__setitem__(o, "k", [1])
        elif kind == "S":
            o = S([1, 2])
        elif kind == "T":
            o = T((1, "x"))
        elif kind == "CM":
            return collections.ChainMap({"x": 1}, UM(oid), _mk(D({"k": 1}), oid))
        elif kind == "CMdd":
            # a ChainMap whose first layers are defaultdicts: looking a key up layer by layer inserts it (changes the program's data)
            return collections.ChainMap(collections.defaultdict(list), collections.defaultdict(int, {"n": 1}), {"z": 2})
        elif kind == "MP":
            return types.MappingProxyType(_mk(D({"k": 1}), oid))
        elif kind == "UD":
            u = collections.UserDict()
            u.data = _mk(D({"k": 1}), oid)
            return u
        elif kind == "UL":
            u = collections.UserList()
            u.data = _mk(L([1, "x"]), oid)
            return u
        elif kind == "DQ":
            return collections.deque([GA(oid), HE(oid)])
        elif kind == "OD":
            return collections.OrderedDict([("a", HE(oid)), ("b", GA(oid))])
        elif kind == "FS":
            return frozenset([HE(oid)])
        elif kind == "CT":
            c = collections.Counter()
            dict.__setitem__(c, HE(oid), 1)
            return c
        elif kind == "MI":
            return MI(oid)
        elif kind == "MIcls":
            return MI
        elif kind == "DS":
            return ds_class(fnames)(oid)
        else:
            raise ValueError(kind)
        o._oid = oid
        return o

    return make


def reset():
    del HJ[:]
    ARMED[0] = False
    LAST_RAISE[0] = None
