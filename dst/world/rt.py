"""Runtime support shared by every generated fixture body.

Everything the bodies call from here is a C-level callable (bound methods of list / itertools
objects), so the recording itself creates no Python frame and is invisible to sys.setprofile
'call' / 'return' events.

Journal records (appended by the bodies and by the call / step sites inside them):
    ("E", cid, fid, {param: value}, hidx)   first statement of every body; cid == index of this record
                                            in the journal (hidx: handle index or None)
    ("Y", cid, value)                       right before a yield
    ("B", cid, pname, value)                a parameter was re-bound
    ("C", cid)                              a catching yield caught a thrown exception
    ("R", cid, value)                       right before a return (or falling off the end)
    ("XS", m, excname, owner)               site (in the body of call `owner`): the call whose E is journal[m] ended by exception
    ("YF", cid, m)                          right before `yield from`: the generator whose E will be journal[m] yields through call cid
    ("RZ", cid)                             right before the body raises by itself
    ("EU", hidx, (callee, args, kwargs))    site: an exception is about to be thrown into handle hidx, which has not started
    ("TH", hidx) / ("TE", hidx)             site: around generator.throw() on handle hidx (the first yield in between is throw()'s result)
    ("XH", hidx, excname, at_yield, owner)  site: stepping handle hidx propagated an exception
    ("XC", hidx) / ("XD", hidx)             site: suspended handle closed / dropped (GeneratorExit at the yield)
    ("A", cid)                              right before an await suspension
    ("MU", cid, obj, copy)                  right before the container obj (bound to a parameter) is mutated in place; copy = its state before
"""


J = []          # journal
Q = []          # script stack (LIFO): pushed right before a call, popped by the callee's first statement
H = {}          # live handles: idx -> [obj, script_or_None (until first step), started, kind]
RUN = set()     # handle indices currently executing
E0 = (None, ())  # script used when nothing was pushed

R = J.append
P = Q.append
M = J.__len__
import random as _random_module  # noqa: E402

RND = _random_module.random   # the program's own use of the global RNG (C-level builtin method)


FLAKY_RAISES = []   # journal lengths at which a FlakyCallable raised from inside the tracer's function lookup


class FlakyCallable:
    """A lazily bound proxy as a program might keep in a local: callable; asking it for __code__ / __wrapped__ (what a duck-typed
    function lookup does with every callable it meets) raises RuntimeError the first n times - a transient fault inside the lookup."""

    def __init__(self, n):
        self.__dict__["n"] = n

    def __call__(self, *a, **k):
        return None

    def __getattr__(self, name):
        if name in ("__code__", "__wrapped__") and self.__dict__["n"] > 0:
            self.__dict__["n"] -= 1
            FLAKY_RAISES.append(len(J))
            raise RuntimeError("proxy is not bound yet")
        raise AttributeError(name)


def reset():
    """Fresh journal / stacks for a new run.  Objects are mutated in place so that the
    aliases imported by fixture modules stay valid."""
    del J[:]
    del FLAKY_RAISES[:]
    del Q[:]
    H.clear()
    RUN.clear()


AIO = {"on": False, "rng": None}   # asyncio mode: suspensions go through the simulated event loop


class Susp:
    """Awaitable that really suspends: its __await__ yields one token to whoever drives the coroutine
    (trampoline mode), or sleeps for a scheduler-chosen simulated delay (asyncio mode)."""

    __slots__ = ()

    def __await__(self):
        if AIO["on"]:
            import asyncio

            return asyncio.sleep(AIO["rng"].choice((0, 0, 0, 0.001, 0.5, 60.0))).__await__()
        return iter((TOKEN,))


class _Token:
    __slots__ = ()

    def __repr__(self):
        return "<suspension token>"


TOKEN = _Token()
SUSP = Susp()


class SimError(Exception):
    pass


EXC = {"ValueError": ValueError, "KeyError": KeyError, "RuntimeError": RuntimeError, "SimError": SimError, "TypeError": TypeError}
