"""Generated fixture programs: spec generation, source rendering, loading.

A program spec is a JSON dict:
  {"pkg": name, "modules": [names], "classes": [{name, module, bases, outer}],
   "funcs": [{fid, name, module, cls, kind, params, body, wrapx, inner, annotate}]}

kinds : func | wrapped | method | classmethod | staticmethod | property | cproperty (functools.cached_property) | sproperty (settable; not resolvable)
body  : plain | gen | coro | agen (async generator: yields and awaits)
params: [{"n": name, "k": "po"|"pk"|"ko"|"var"|"kw", "d": has_default}]
inner : optional nested function {fid, params, body} defined inside this function's body and only
        ever called from it (closure over the first named parameter, if any)

Every body is the same small interpreter over a *script* (a tuple of action tuples) that the
simulator hands over on a stack right before the call; the function's kind / signature / exits are
real Python (real frames, real opcodes: RETURN_VALUE, RETURN_CONST, YIELD_VALUE, RAISE_VARARGS...).
"""
import functools
import importlib
import sys
import types

from . import rt

# action codes
A_CALL, A_GETATTR, A_SUPER, A_INNER, A_YIELD, A_RET, A_RETNONE, A_RETCONST, A_RAISE, A_REBIND = 1, 2, 3, 4, 5, 6, 7, 8, 9, 10
A_START, A_STEP, A_AWAIT, A_AWAITCALL, A_NOP = 11, 12, 13, 14, 15

HEADER = '''\
import functools as _functools
from dst.world.rt import R as _R, P as _P, M as _M, Q as _Q, H as _H, RUN as _RUN, E0 as _E0, SUSP as _SUSP, RND as _RND

class _LazyObj:
    """What a stale name may be bound to after a refactoring: a lazily initialised singleton that cannot even be printed yet."""

    def __repr__(self):
        raise RuntimeError("not initialised")

    __str__ = __repr__


_OFF = globals().get("_OFF", 0)  # fid offset: non-zero only in a twin copy of this module (same source, other file)


def _deco(f):
    @_functools.wraps(f)
    def wrapper(*a, **k):
        return f(*a, **k)
    return wrapper

'''


def named_params(params):
    return [p["n"] for p in params if p["k"] in ("po", "pk", "ko")]


def render_sig(params, annotations=None):
    out = []
    seen_po = False
    star_done = False
    ann = annotations or {}
    for i, p in enumerate(params):
        k = p["k"]
        if k != "po" and seen_po:
            out.append("/")
            seen_po = False
        if k == "po":
            seen_po = True
        if k == "var":
            star_done = True
            out.append("*" + p["n"])
            continue
        if k == "kw":
            out.append("**" + p["n"])
            continue
        if k == "ko" and not star_done:
            out.append("*")
            star_done = True
        s = p["n"]
        if p["n"] in ann:
            s += ": " + ann[p["n"]]
        if p.get("d"):
            s += (" = " if p["n"] in ann else "=") + p.get("dv", "None")
        out.append(s)
    if seen_po:
        out.append("/")
    return ", ".join(out)


def _site(ind, call_expr, catch_expr, pre=""):
    """A call site: push script, call, record exceptional exit of the callee."""
    i = " " * ind
    return (
        f"{i}{pre}_m = _M()\n"
        f"{i}try:\n"
        f"{i}    {call_expr}\n"
        f"{i}except BaseException as _e:\n"
        f"{i}    _R((\"XS\", _m, type(_e).__name__, _c))\n"
        f"{i}    if not {catch_expr} or type(_e) is GeneratorExit: raise\n"
    )


def render_body(f, ind, is_method_with_super=False):
    """Source of the interpreter loop for one function (list of lines, already indented)."""
    i = " " * ind
    body = f["body"]
    names = named_params(f["params"])
    edict = ", ".join('"%s": %s' % (n, n) for n in names)
    L = []
    L.append(f"{i}_c = _M(); _sc = _Q.pop() if _Q else _E0; _R((\"E\", _c, {f.get('src_fid', f['fid'])} + _OFF, {{{edict}}}, _sc[0]))")
    inner = f.get("inner")
    if inner:
        isig = render_sig(inner["params"])
        L.append(f"{i}def _inner{inner['fid']}({isig}):")
        if names:
            L.append(f"{i}    _cv = {names[0]}")
        L.extend(render_body(inner, ind + 4))
    if f.get("wrapx"):
        L.append(f"{i}try:")
        i2 = i + "    "
        ind2 = ind + 4
    else:
        i2 = i
        ind2 = ind
    L.append(f"{i2}for _op in _sc[1]:")
    j = i2 + "    "
    L.append(f"{j}_k = _op[0]")
    # 1: call
    L.append(f"{j}if _k == 1:")
    L.append(f"{j}    _P(_op[4])")
    L.append(_site(ind2 + 8, "_op[1](*_op[2], **_op[3])", "_op[5]").rstrip("\n"))
    # 2: attribute read (property)
    L.append(f"{j}elif _k == 2:")
    L.append(f"{j}    _P(_op[3])")
    L.append(_site(ind2 + 8, "getattr(_op[1], _op[2])", "_op[4]").rstrip("\n"))
    if f.get("super"):
        L.append(f"{j}elif _k == 3:")
        L.append(f"{j}    _P(_op[3])")
        if f["kind"] == "property":
            call = f"super().{f['name']}"
        else:
            call = f"super().{f['name']}(*_op[1], **_op[2])"
        L.append(_site(ind2 + 8, call, "_op[4]").rstrip("\n"))
    if inner:
        L.append(f"{j}elif _k == 4:")
        L.append(f"{j}    _P(_op[3])")
        L.append(_site(ind2 + 8, f"_inner{inner['fid']}(*_op[1], **_op[2])", "_op[4]").rstrip("\n"))
    if body == "gen":
        # 20: delegate to another generator (its yields travel up through this frame; the journal links the two calls)
        L.append(f"{j}elif _k == 20:")
        L.append(f"{j}    _P(_op[4]); _m = _M() + 1; _R((\"YF\", _c, _m))")
        L.append(f"{j}    try:")
        L.append(f"{j}        yield from _op[1](*_op[2], **_op[3])")
        L.append(f"{j}    except BaseException as _e:")
        L.append(f"{j}        _R((\"XS\", _m, type(_e).__name__, _c))")
        L.append(f"{j}        if not _op[5] or type(_e) is GeneratorExit: raise")
    if body in ("gen", "agen"):
        L.append(f"{j}elif _k == 5:")
        L.append(f"{j}    _R((\"Y\", _c, _op[1]))")
        L.append(f"{j}    if _op[2]:")
        L.append(f"{j}        try:")
        L.append(f"{j}            yield _op[1]")
        L.append(f"{j}        except Exception:")
        L.append(f"{j}            _R((\"C\", _c))")
        L.append(f"{j}    else:")
        L.append(f"{j}        yield _op[1]")
    if body == "agen":
        # an async generator cannot return a value
        L.append(f"{j}elif _k == 7:")
        L.append(f"{j}    _R((\"R\", _c, None)); return")
    else:
        L.append(f"{j}elif _k == 6:")
        L.append(f"{j}    _v = _op[1]; _R((\"R\", _c, _v)); return _v")
        L.append(f"{j}elif _k == 7:")
        L.append(f"{j}    _R((\"R\", _c, None)); return None")
        L.append(f"{j}elif _k == 8:")
        L.append(f"{j}    _R((\"R\", _c, 7)); return 7")
    L.append(f"{j}elif _k == 9:")
    L.append(f"{j}    _R((\"RZ\", _c)); raise _op[1]")
    if names:
        L.append(f"{j}elif _k == 10:")
        L.append(f"{j}    _R((\"B\", _c, _op[1], _op[2]))")
        for n_i, n in enumerate(names):
            kw = "if" if n_i == 0 else "elif"
            L.append(f"{j}    {kw} _op[1] == \"{n}\": {n} = _op[2]")
    # 11: start a handle
    L.append(f"{j}elif _k == 11:")
    L.append(f"{j}    _H[_op[1]] = [_op[2](*_op[3], **_op[4]), _op[5], False, _op[6], None, (_op[2], _op[3], _op[4])]")
    # 12: step a handle
    L.append(f"{j}elif _k == 12:")
    L.append(f"{j}    _h = _H.get(_op[1])")
    L.append(f"{j}    if _h is None or _op[1] in _RUN: continue")
    L.append(f"{j}    _mode = _op[2]")
    L.append(f"{j}    if not _h[2]:")
    L.append(f"{j}        if _mode == 2 and _h[3] != \"a\":")
    # an exception thrown into a generator / coroutine that has not started: its body never runs (no E record of its own), the
    # activation begins and ends inside throw(); the site journals which callable with which arguments it was
    L.append(f"{j}            _R((\"EU\", _op[1], _h[5])); _h[1] = None; _h[2] = True")
    L.append(f"{j}        elif _mode >= 2:")
    L.append(f"{j}            if _mode == 4: del _H[_op[1]]")
    L.append(f"{j}            continue")
    L.append(f"{j}        else:")
    L.append(f"{j}            _P(_h[1]); _h[1] = None; _h[2] = True; _mode = 0")
    L.append(f"{j}    _RUN.add(_op[1]); _m = _M()")
    L.append(f"{j}    try:")
    # async generator handle: one step = one send() on the awaitable of the current asend / athrow / aclose; that awaitable is
    # kept in slot 4 while the async generator is suspended at an await (it hands the suspension token up to this driver)
    L.append(f"{j}        if _h[3] == \"a\":")
    # (the awaitable lives only in the handle's slot, never in a local of this frame: a local would be pinned by any f_locals
    #  snapshot of this frame and delay the finalisation of a dropped async generator)
    L.append(f"{j}            if _mode == 4 or (_h[4] is not None and _mode == 3):")
    L.append(f"{j}                _h[4] = None; _h[0] = None; del _H[_op[1]]; _R((\"XD\", _op[1]))")
    L.append(f"{j}            else:")
    L.append(f"{j}                if _h[4] is None:")
    L.append(f"{j}                    if _mode <= 1: _h[4] = _h[0].asend(_op[3] if _mode == 1 else None)")
    L.append(f"{j}                    elif _mode == 2: _h[4] = _h[0].athrow(_op[3])")
    L.append(f"{j}                    else: _h[4] = _h[0].aclose()")
    L.append(f"{j}                try:")
    L.append(f"{j}                    _h[4].send(None)")
    L.append(f"{j}                except StopIteration:")
    L.append(f"{j}                    _h[4] = None")
    L.append(f"{j}                    if _mode == 3: del _H[_op[1]]; _R((\"XC\", _op[1]))")
    L.append(f"{j}                except StopAsyncIteration:")
    L.append(f"{j}                    _h[4] = None; del _H[_op[1]]")
    L.append(f"{j}                except BaseException:")
    L.append(f"{j}                    _h[4] = None; raise")
    L.append(f"{j}        elif _mode == 0: _h[0].send(None)")
    L.append(f"{j}        elif _mode == 1: _h[0].send(_op[3])")
    L.append(f"{j}        elif _mode == 2: _R((\"TH\", _op[1])); _m = _M(); _h[0].throw(_op[3])")
    L.append(f"{j}        elif _mode == 3:")
    L.append(f"{j}            _h[0].close(); del _H[_op[1]]; _R((\"XC\", _op[1]))")
    L.append(f"{j}        else:")
    L.append(f"{j}            _h[0] = None; del _H[_op[1]]; _R((\"XD\", _op[1]))")
    L.append(f"{j}    except StopIteration:")
    L.append(f"{j}        del _H[_op[1]]")
    L.append(f"{j}    except BaseException as _e:")
    L.append(f"{j}        del _H[_op[1]]")
    L.append(f"{j}        _R((\"XH\", _op[1], type(_e).__name__, _mode == 2 and _M() == _m, _c))")
    L.append(f"{j}        if not _op[4]:")
    L.append(f"{j}            _RUN.discard(_op[1]); raise")
    L.append(f"{j}    _RUN.discard(_op[1])")
    L.append(f"{j}    if _mode == 2: _R((\"TE\", _op[1]))")
    L.append(f"{j}elif _k == 17:")
    L.append(f"{j}    _R((\"RND\", _c, _RND()))")
    if names and body != "agen":
        # return the object currently bound to a parameter (possibly re-bound since the call started)
        L.append(f"{j}elif _k == 18:")
        for n_i, n in enumerate(names):
            kw = "if" if n_i == 0 else "elif"
            L.append(f"{j}    {kw} _op[1] == \"{n}\": _v = {n}")
        L.append(f"{j}    else: _v = None")
        L.append(f"{j}    _R((\"R\", _c, _v)); return _v")
    if names and body not in ("coro", "agen"):
        # in-place mutation of the container currently bound to a parameter (exact list / dict / set only); the state before
        # the mutation is journaled as a shallow copy made by the type's own C-level constructor
        L.append(f"{j}elif _k == 19:")
        for n_i, n in enumerate(names):
            kw = "if" if n_i == 0 else "elif"
            L.append(f"{j}    {kw} _op[1] == \"{n}\": _t = {n}")
        L.append(f"{j}    else: _t = None")
        L.append(f"{j}    _ty = type(_t)")
        L.append(f"{j}    if _ty is list:")
        L.append(f"{j}        _R((\"MU\", _c, _t, list(_t)))")
        L.append(f"{j}        if _op[4] and _t: _t[0] = _op[2]")
        L.append(f"{j}        else: _t.append(_op[2])")
        L.append(f"{j}    elif _ty is dict:")
        L.append(f"{j}        _R((\"MU\", _c, _t, dict(_t)))")
        L.append(f"{j}        if _op[4] == 2 and _t: _t[_op[3]] = _t.pop(next(iter(_t)))   # rename a key: same size, other key set")
        L.append(f"{j}        elif _op[4] and _t: _t[next(iter(_t))] = _op[2]")
        L.append(f"{j}        else: _t[_op[3]] = _op[2]")
        L.append(f"{j}    elif _ty is set: _R((\"MU\", _c, _t, set(_t))); _t.add(_op[3])")
    if f["fid"] == 0:
        L.append(f"{j}elif _k == 16:")
        L.append(f"{j}    _op[1]()")
    if body in ("coro", "agen"):
        L.append(f"{j}elif _k == 13:")
        L.append(f"{j}    _R((\"A\", _c)); await _SUSP")
        L.append(f"{j}elif _k == 14:")
        L.append(f"{j}    _P(_op[4])")
        L.append(_site(ind2 + 8, "await _op[1](*_op[2], **_op[3])", "_op[5]").rstrip("\n"))
    if f.get("wrapx"):
        L.append(f"{i}except BaseException:")
        L.append(f"{i}    raise")
    L.append(f"{i}_R((\"R\", _c, None))")
    return L


def render_func(f, ind=0, annotations=None):
    i = " " * ind
    L = []
    kind = f["kind"]
    ch = f.get("churn")
    if ch == "removed":
        return []
    if ch == "class":
        return [f"{i}class {f['name']}:", f"{i}    pass"]
    if ch == "value":
        return [f"{i}{f['name']} = 42"]
    if ch == "lazyobj":
        return [f"{i}{f['name']} = _LazyObj()"]
    if ch == "local":
        g = dict(f, churn=None)
        return [f"{i}def _holder_{f['name']}():"] + render_func(g, ind + 4, annotations) + [f"{i}    return {f['name']}"]
    if ch == "sproperty":
        f = dict(f, kind="sproperty")
        kind = "sproperty"
    if kind == "wrapped":
        L.append(f"{i}@_deco")
    elif kind == "classmethod":
        L.append(f"{i}@classmethod")
    elif kind == "staticmethod":
        L.append(f"{i}@staticmethod")
    elif kind in ("property", "sproperty"):
        L.append(f"{i}@property")
    elif kind == "cproperty":
        L.append(f"{i}@_functools.cached_property")
    sig = render_sig(f["params"], (annotations or {}).get("params"))
    ret = ""
    if annotations and annotations.get("ret"):
        ret = " -> " + annotations["ret"]
    d = "async def" if f["body"] in ("coro", "agen") else "def"
    L.append(f"{i}{d} {f['name']}({sig}){ret}:")
    L.extend(render_body(f, ind + 4))
    if kind == "sproperty":
        L.append(f"{i}@{f['name']}.setter")
        L.append(f"{i}def {f['name']}(self, v):")
        L.append(f"{i}    pass")
    return L


def render_module(spec, modname, extra_header=""):
    L = [HEADER, extra_header]
    others = [m for m in spec["modules"] if m != modname]
    # classes of other modules referenced as bases are imported lazily below
    classes = [c for c in spec["classes"] if c["module"] == modname]
    funcs = [f for f in spec["funcs"] if f["module"] == modname and "twin_of" not in f]
    imported = set()
    for c in classes:
        for b in c["bases"]:
            bc = next(x for x in spec["classes"] if x["name"] == b)
            if bc["module"] != modname and b not in imported:
                L.append(f"from {spec['pkg']}.{bc['module']} import {b}")
                imported.add(b)
    for m, r in spec.get("imports") or ():
        if m == modname:
            # plain dependency on a sibling module: when that sibling is removed later, this module still exists but no longer imports
            L.append(f"import {spec['pkg']}.{r}")
    L.append("")

    def render_class(c, ind):
        i = " " * ind
        if c.get("churn") == "removed":
            return []
        if c.get("churn") == "value":
            return [f"{i}{c['name']} = 42", ""]
        if c.get("churn") == "lazyobj":
            return [f"{i}{c['name']} = _LazyObj()", ""]
        if c.get("churn") == "function":
            return [f"{i}def {c['name']}():", f"{i}    pass", ""]
        bases = "(" + ", ".join(c["bases"]) + ")" if c["bases"] else ""
        out = [f"{i}class {c['name']}{bases}:"]
        out.append(f"{i}    TAG = {c['name']!r}")
        for n in [x for x in classes if x.get("outer") == c["name"]]:
            out.extend(render_class(n, ind + 4))
        for f in funcs:
            if f.get("cls") == c["name"]:
                out.extend(render_func(f, ind + 4, f.get("annotations")))
        out.append("")
        return out

    for c in classes:
        if not c.get("outer"):
            L.extend(render_class(c, 0))
            L.append("")
    for f in funcs:
        if not f.get("cls"):
            L.extend(render_func(f, 0, f.get("annotations")))
            L.append("")
            L.append("")
    return "\n".join(L) + "\n"


TWIN_OFF = 1000


def add_twin_module(spec, rng):
    """Install one module's source under a second module name: its module-level functions then exist
    twice with equal-but-not-identical code objects (same text, same line, other file)."""
    cands = [m for m in spec["modules"] if any(f["module"] == m and not f.get("cls") for f in spec["funcs"])]
    if not cands:
        return
    m = rng.choice(cands)
    t = "t" + m
    spec["modules"] = spec["modules"] + [t]
    spec["twins"] = [[t, m]]
    for f in list(spec["funcs"]):
        if f["module"] == m and not f.get("cls") and f["kind"] in ("func", "wrapped"):
            g = dict(f, fid=f["fid"] + TWIN_OFF, module=t, twin_of=f["fid"], src_fid=f["fid"])
            if f.get("inner"):
                g["inner"] = dict(f["inner"], fid=f["inner"]["fid"] + TWIN_OFF, src_fid=f["inner"]["fid"])
            spec["funcs"].append(g)


def broken_modules(spec):
    """Modules that still exist but (transitively) import a removed sibling module."""
    rm = set(spec.get("removed_modules") or ())
    broken = set()
    changed = True
    while changed:
        changed = False
        for m, r in spec.get("imports") or ():
            if m not in rm and m not in broken and (r in rm or r in broken):
                broken.add(m)
                changed = True
    return broken


class Loaded:
    """A program loaded into this process."""

    def __init__(self, spec):
        self.spec = spec
        self.modules = {}
        self.sources = {}
        self.classes = {}    # class name -> class object
        self.funcs = {}      # fid -> spec (incl. inner functions)
        self.code = {}       # id(code object) -> fid
        self.code_objs = {}  # fid -> code object
        self.fobj = {}       # fid -> raw function object (None for inner functions)
        self.root = None


def _find_inner_code(code, name):
    for c in code.co_consts:
        if isinstance(c, types.CodeType):
            if c.co_name == name:
                return c
            r = _find_inner_code(c, name)
            if r is not None:
                return r
    return None


def load(spec, root=None):
    """Render, compile and register the package.  With root, sources are also written to disk
    (needed by `apply`, fresh-interpreter phases and the default code filter)."""
    import os

    pkg = spec["pkg"]
    lp = Loaded(spec)
    lp.root = root
    base = os.path.join(root, pkg) if root else "/nonexistent-simroot/" + pkg
    if root:
        os.makedirs(base, exist_ok=True)
        with open(os.path.join(base, "__init__.py"), "w") as fh:
            fh.write("")
    pm = types.ModuleType(pkg)
    pm.__path__ = [base]
    pm.__file__ = os.path.join(base, "__init__.py")
    sys.modules[pkg] = pm
    # modules are ordered so that base classes come first
    for m in spec["modules"]:
        if m in (spec.get("removed_modules") or ()):
            if root and os.path.exists(os.path.join(base, m + ".py")):
                os.unlink(os.path.join(base, m + ".py"))
            continue
        twin_src = dict(spec.get("twins") or []).get(m)
        src = render_module(spec, twin_src or m)
        fn = os.path.join(base, m + ".py")
        if root:
            with open(fn, "w") as fh:
                fh.write(src)
        if m in broken_modules(spec):
            # the file stays on disk, but importing it raises ModuleNotFoundError naming the removed sibling
            lp.sources[m] = src
            continue
        mod = types.ModuleType(pkg + "." + m)
        mod.__file__ = fn
        mod.__package__ = pkg
        sys.modules[pkg + "." + m] = mod
        setattr(pm, m, mod)
        code = compile(src, fn, "exec", dont_inherit=True)
        if twin_src:
            mod.__dict__["_OFF"] = TWIN_OFF
        if spec.get("global_tw"):
            # C03: tripwire objects bound to module globals *before* the module body runs, so that a scan of the module's globals
            # (function lookup for static methods / unresolvable functions) meets them before it meets the classes
            from . import tripwires

            mk = tripwires.factory([])
            for gi, kind in enumerate(spec["global_tw"]):
                mod.__dict__["zz_tw%d" % gi] = mk(["tw", kind, 8000 + gi])
        exec(code, mod.__dict__)
        lp.modules[m] = mod
        lp.sources[m] = src
    for c in spec["classes"]:
        if c.get("churn") or c["module"] not in lp.modules or any(x.get("churn") for x in spec["classes"] if x["name"] == c.get("outer")):
            continue
        obj = lp.modules[c["module"]]
        path = []
        cur = c
        while cur:
            path.append(cur["name"])
            cur = next((x for x in spec["classes"] if x["name"] == cur.get("outer")), None) if cur.get("outer") else None
        for nm in reversed(path):
            obj = getattr(obj, nm)
        lp.classes[c["name"]] = obj
    import inspect

    for f in spec["funcs"]:
        lp.funcs[f["fid"]] = f
        if f.get("churn") in ("removed", "class", "value", "lazyobj", "local") or f["module"] not in lp.modules or (f.get("cls") and f["cls"] not in lp.classes):
            if f.get("inner"):
                inner = f["inner"]
                lp.funcs[inner["fid"]] = dict(inner, kind="inner", module=f["module"], cls=None, name="_inner%d" % inner["fid"], outer_fid=f["fid"])
            continue
        if f.get("cls"):
            raw = inspect.getattr_static(lp.classes[f["cls"]], f["name"])
            if isinstance(raw, (classmethod, staticmethod)):
                raw = raw.__func__
            elif isinstance(raw, property):
                raw = raw.fget
            elif isinstance(raw, functools.cached_property):
                raw = raw.func
        else:
            raw = lp.modules[f["module"]].__dict__[f["name"]]
            while hasattr(raw, "__wrapped__"):
                raw = raw.__wrapped__
        lp.fobj[f["fid"]] = raw
        lp.code[id(raw.__code__)] = f["fid"]
        lp.code_objs[f["fid"]] = raw.__code__
        inner = f.get("inner")
        if inner:
            ic = _find_inner_code(raw.__code__, "_inner%d" % inner.get("src_fid", inner["fid"]))
            lp.funcs[inner["fid"]] = dict(inner, kind="inner", module=f["module"], cls=None, name="_inner%d" % inner.get("src_fid", inner["fid"]), outer_fid=f["fid"])
            lp.code[id(ic)] = inner["fid"]
            lp.code_objs[inner["fid"]] = ic
            lp.fobj[inner["fid"]] = None
    # C03: module globals named like the function they wrap, bound to a callable with attribute hooks
    if spec.get("proxied"):
        from . import tripwires

        for fid in spec["proxied"]:
            f = lp.funcs[fid]
            if f.get("cls") or f["kind"] not in ("func", "wrapped"):
                continue
            d = lp.modules[f["module"]].__dict__
            d[f["name"]] = tripwires.CallProxy(d[f["name"]], 9000 + fid)
            f["proxied"] = True
    if root:
        importlib.invalidate_caches()
    return lp


def unload(lp):
    pkg = lp.spec["pkg"]
    for k in [k for k in sys.modules if k == pkg or k.startswith(pkg + ".")]:
        del sys.modules[k]
    importlib.invalidate_caches()


# ----------------------------------------------------------------------------------------------
# spec generation


def gen_params(rng, kn, receiver=None):
    params = []
    if receiver:
        params.append({"n": receiver, "k": "pk", "d": False})
    n = rng.choice([0, 1, 1, 2, 2, 3, 4]) if not kn.get("few_params") else rng.choice([0, 1, 2])
    kinds = []
    for _ in range(n):
        kinds.append(rng.choice(["po", "pk", "pk", "pk", "ko"] if kn.get("param_kinds", True) else ["pk"]))
    order = {"po": 0, "pk": 1, "ko": 3}
    kinds.sort(key=lambda k: order[k])
    if receiver and "po" in kinds:
        kinds = ["pk" if k == "po" else k for k in kinds]
    seen_default = False
    names = iter("abcdefgh")
    out = []
    for k in kinds:
        d = False
        if kn.get("defaults", True):
            if k == "ko":
                d = rng.random() < 0.4
            elif seen_default or rng.random() < 0.25:
                d = True
                seen_default = True
        p = {"n": next(names), "k": k, "d": d}
        if d:
            p["dv"] = rng.choice(["None", "0", "'dflt'", "None"])
        out.append(p)
    if kn.get("varargs", True) and rng.random() < 0.2:
        idx = max([i for i, p in enumerate(out) if p["k"] in ("po", "pk")], default=-1) + 1
        out.insert(idx, {"n": "args", "k": "var", "d": False})
    if kn.get("varargs", True) and rng.random() < 0.2:
        out.append({"n": "kwargs", "k": "kw", "d": False})
    return params + out


def gen_spec(rng, kn=None, pkg="simpkg"):
    """Random program spec.  kn: swarm knobs (dict)."""
    kn = dict(kn or {})
    nmod = rng.choice([1, 1, 2, 2, 3])
    mod_names = ["ma", "a_mb", "xma"][:nmod] if kn.get("suffix_names") else ["ma", "mb", "mc"][:nmod]
    classes, funcs = [], []
    fid = [0]

    def nf():
        fid[0] += 1
        return fid[0]

    bodies = ["plain"] * 5 + (["gen"] * 3 if kn.get("generators", True) else []) + (["coro"] * 2 if kn.get("coroutines", True) else []) + \
        (["agen"] * 2 if kn.get("async_generators") else [])
    # classes
    ncls = rng.choice([1, 2, 3, 4]) if kn.get("classes", True) else 0
    for ci in range(ncls):
        name = "K%d" % (ci + 1)
        module = rng.choice(mod_names[: max(1, min(nmod, 1 + ci))])
        bases = []
        cands = [c for c in classes if not c.get("outer") and mod_names.index(c["module"]) <= mod_names.index(module)]
        if cands and rng.random() < 0.6:
            bases.append(rng.choice(cands)["name"])
            if kn.get("multi_inherit", True) and len(cands) > 1 and rng.random() < 0.25:
                b2 = rng.choice(cands)["name"]
                if b2 not in bases and not _is_ancestor(classes, b2, bases[0]) and not _is_ancestor(classes, bases[0], b2):
                    bases.append(b2)
        outer = None
        if not bases and kn.get("nested_classes") and classes and rng.random() < 0.5:
            oc = rng.choice([c for c in classes if not c.get("outer")] or [None])
            if oc:
                outer = oc["name"]
                module = oc["module"]
        classes.append({"name": name, "module": module, "bases": bases, "outer": outer})
    # methods
    mnames = {}
    for c in classes:
        nm = rng.choice([1, 2, 3])
        for _ in range(nm):
            kind = rng.choice(["method"] * 4 + ["classmethod", "staticmethod", "property"] + (["sproperty"] if kn.get("unknown_kinds") else []) +
                              (["cproperty"] if kn.get("cached_props") else []))
            base_methods = [f for f in funcs if f.get("cls") in _ancestors(classes, c["name"]) and f["kind"] in ("method", "classmethod", "property")]
            if base_methods and kn.get("overrides", True) and rng.random() < 0.5:
                bm = rng.choice(base_methods)
                if any(f.get("cls") == c["name"] and f["name"] == bm["name"] for f in funcs):
                    continue
                f = {"fid": nf(), "name": bm["name"], "module": c["module"], "cls": c["name"], "kind": bm["kind"],
                     "params": [dict(p) for p in bm["params"]], "body": bm["body"], "super": True}
            else:
                n = "m%d" % (len(mnames) + 1)
                mnames[n] = 1
                body = "plain" if kind in ("property", "sproperty", "cproperty") else rng.choice(bodies)
                if kind in ("property", "sproperty", "cproperty"):
                    params = [{"n": "self", "k": "pk", "d": False}]
                elif kind == "method":
                    params = gen_params(rng, kn, "self")
                elif kind == "classmethod":
                    params = gen_params(rng, kn, "cls")
                else:
                    params = gen_params(rng, kn)
                f = {"fid": nf(), "name": n, "module": c["module"], "cls": c["name"], "kind": kind, "params": params, "body": body}
            f["wrapx"] = rng.random() < 0.25
            funcs.append(f)
    # module functions
    nfun = rng.choice([2, 3, 4, 5])
    for _ in range(nfun):
        kind = "wrapped" if (kn.get("wraps", True) and rng.random() < 0.2) else "func"
        body = rng.choice(bodies)
        if kind == "wrapped" and body != "plain":
            kind = "func"
        f = {"fid": nf(), "name": "f%d" % (fid[0]), "module": rng.choice(mod_names), "cls": None, "kind": kind,
             "params": gen_params(rng, kn), "body": body, "wrapx": rng.random() < 0.25}
        if kn.get("nested_funcs", True) and rng.random() < 0.3:
            f["inner"] = {"fid": nf(), "params": gen_params(rng, dict(kn, few_params=True)), "body": "plain"}
        funcs.append(f)
    return {"pkg": pkg, "modules": mod_names, "classes": classes, "funcs": funcs}


def _ancestors(classes, name):
    out = []
    c = next(x for x in classes if x["name"] == name)
    for b in c["bases"]:
        out.append(b)
        out.extend(_ancestors(classes, b))
    return out


def _is_ancestor(classes, a, of):
    return a in _ancestors(classes, of)
