"""Virtual-time asyncio event loop whose ready queue is permuted by the scheduler.

One seed decides the order in which ready callbacks run and every simulated delay; time jumps to the
next timer when nothing is ready, so long sleeps cost nothing. No selector, no threads, no real clock.
"""
import asyncio
import collections
import heapq
import random

from . import rt


class _NoSelector:
    def __init__(self, loop):
        self.loop = loop

    def select(self, timeout=None):
        if timeout and timeout > 0:
            self.loop._vtime += timeout   # jump the clock to the next timer
        return []

    def close(self):
        pass

    def get_map(self):
        return {}


class SimLoop(asyncio.BaseEventLoop):
    def __init__(self, seed):
        super().__init__()
        self._vtime = 0.0
        self._rng = random.Random(seed)
        self._selector = _NoSelector(self)
        self.steps = 0
        self.permutations = 0
        self._clock_resolution = 1e-9

    def time(self):
        return self._vtime

    def _process_events(self, event_list):
        pass

    def _write_to_self(self):
        pass

    def _run_once(self):
        self.steps += 1
        if len(self._ready) > 1:
            lst = list(self._ready)
            self._rng.shuffle(lst)
            self._ready = collections.deque(lst)
            self.permutations += 1
        super()._run_once()


async def _wrap(hidx, coro, script):
    """Harness-side task body: hands the script over and records how the fixture coroutine ended."""
    rt.P(script)
    try:
        return await coro
    except BaseException as e:  # noqa
        rt.R(("XH", hidx, type(e).__name__, False))
        raise


def run_tasks(seed, specs, max_steps=400):
    """specs: list of (hidx, make_coro(), script, cancel_at_step or None). Returns stats."""
    loop = SimLoop(seed)
    old_mode = rt.AIO["on"]
    rt.AIO["on"] = True
    rt.AIO["rng"] = random.Random(seed ^ 0x5EED)
    stats = {"tasks": 0, "cancelled": 0, "steps": 0, "vtime": 0.0, "permutations": 0}
    prev_running = asyncio.events._get_running_loop()
    asyncio.events._set_running_loop(loop)
    loop.set_exception_handler(lambda l, c: None)
    try:
        tasks = []
        for hidx, make, script, cancel_at in specs:
            t = loop.create_task(_wrap(hidx, make(), script), name="sim-%d" % hidx)
            tasks.append((t, cancel_at))
            stats["tasks"] += 1

        def pending():
            return [t for t, _ in tasks if not t.done()]

        while pending() and loop.steps < max_steps:
            for t, c in tasks:
                if c is not None and c == loop.steps and not t.done():
                    t.cancel()
                    stats["cancelled"] += 1
            loop._run_once()
        for t in pending():
            t.cancel()
        guard = 0
        while pending() and guard < 1000:
            loop._run_once()
            guard += 1
        for t, _ in tasks:
            if t.done() and not t.cancelled():
                t.exception()   # mark retrieved
        stats["steps"] = loop.steps
        stats["vtime"] = loop._vtime
        stats["permutations"] = loop.permutations
    finally:
        rt.AIO["on"] = old_mode
        asyncio.events._set_running_loop(prev_running)
        try:
            loop.close()
        except Exception:
            pass
    return stats
