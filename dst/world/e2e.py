"""End-to-end simulated histories: program -> tracer -> logger -> SQLite -> CLI stub.

Shared by C01 (conformance of emitted annotations), C06 (TypedDict size limit at three observation
points) and, partly, C14/C17.
"""
import collections
import contextlib
import datetime as _dt
import io
import json
import os
import shutil
import sqlite3
import sys
import tempfile
import types

from dst.core import rng as R
from dst.core.runner import scratch_root
from dst.props import c02
from dst.world import driver as D
from dst.world import rt
from dst.oracles import trace_truth as TT

REWRITERS = ["noop", "default", "remove_empty", "config_dict", "large_union5", "large_union2", "common_base", "generator"]
FLAGS = ["default", "ignore", "omit", "norewrite"]


def make_rewriter(name):
    import monkeytype.typing as MT

    return {
        "noop": MT.NoOpRewriter,
        "default": lambda: MT.DEFAULT_REWRITER,
        "remove_empty": MT.RemoveEmptyContainers,
        "config_dict": MT.RewriteConfigDict,
        "large_union5": lambda: MT.RewriteLargeUnion(5),
        "large_union2": lambda: MT.RewriteLargeUnion(2),
        "common_base": MT.RewriteMostSpecificCommonBase,
        "generator": MT.RewriteGenerator,
    }[name]()


class SimClock:
    def __init__(self):
        self.days = 0
        self.ticks = 0

    def now(self):
        self.ticks += 1
        return _dt.datetime(2024, 1, 1, 12, 0, 0) + _dt.timedelta(days=self.days, microseconds=self.ticks)


class _FakeDT:
    def __init__(self, clock):
        self._c = clock

    def now(self, tz=None):
        return self._c.now()

    def __getattr__(self, n):
        return getattr(_dt.datetime, n)


class FakeDatetimeModule:
    def __init__(self, clock):
        self.datetime = _FakeDT(clock)

    def __getattr__(self, n):
        return getattr(_dt, n)


class TeeStoreLogger:
    """Fault wrapper around the real CallTraceStoreLogger; records what was handed over, what was
    delegated and whether the batch was acknowledged by store.add()."""

    def __init__(self, inner, faults):
        self.inner = inner
        self.faults = faults or {}
        self.logs = []          # (trace, journal position)  - every attempt
        self.delegated = []     # indices into logs
        self.acked = False
        self.flushes = 0
        self.fired = collections.Counter()

    def log(self, trace):
        n = len(self.logs)
        self.logs.append((trace, len(rt.J)))
        if n in (self.faults.get("log") or ()):
            self.fired["log_raises"] += 1
            raise OSError("injected: logger unavailable")
        self.inner.log(trace)
        self.delegated.append(n)

    def flush(self):
        self.flushes += 1
        if self.faults.get("flush"):
            self.fired["flush_raises"] += 1
            raise OSError("injected: flush failed")
        k = self.faults.get("sql_interrupt")
        conn = getattr(getattr(self.inner, "store", None), "conn", None)
        state = {"i": 0}
        if k is not None and conn is not None:
            def handler():
                i = state["i"]
                state["i"] = i + 1
                if i == k:
                    conn.set_progress_handler(None, 0)
                    self.fired["sql_interrupt"] += 1
                    return 1
                return 0

            conn.set_progress_handler(handler, 1)
        try:
            self.inner.flush()
        finally:
            if k is not None and conn is not None:
                conn.set_progress_handler(None, 0)
        self.acked = True


def make_config(path, k, rewriter_name, flt, logger_box, faults, sample_rate=None, k_decoy=None, minimal_store=False):
    """A Config whose answers are read from a mutable `state` dict, so that ONE Config object can be
    reused across sessions whose settings differ (as a long-lived deployment would)."""
    from monkeytype.config import Config
    from monkeytype.db.base import CallTraceStoreLogger
    from monkeytype.db.sqlite import SQLiteStore

    state = {"k": k, "faults": faults, "box": logger_box, "rate": sample_rate, "flt": flt, "rewriter": rewriter_name,
             "in_ctx": 0, "k_decoy": k_decoy, "decoy_reads": 0, "ctx_entered": 0}

    from monkeytype.db.base import CallTraceStore

    class MinimalStore(CallTraceStore):
        """A project's own store that implements only what the interface requires (add / filter / make_store); the optional
        list_modules() keeps the base class's default, which raises NotImplementedError."""

        def __init__(self, inner):
            self.inner = inner
            self.conn = inner.conn

        def add(self, traces):
            return self.inner.add(traces)

        def filter(self, module, qualname_prefix=None, limit=2000):
            return self.inner.filter(module, qualname_prefix, limit)

        @classmethod
        def make_store(cls, connection_string):
            return cls(SQLiteStore.make_store(connection_string))

    class SimConfig(Config):
        @contextlib.contextmanager
        def cli_context(self, command):
            # the documented place for project set-up (django.setup(), loading settings): the project's real limit is
            # only visible while the command runs inside this context; before / after it the un-configured value is
            state["in_ctx"] += 1
            state["ctx_entered"] += 1
            try:
                yield
            finally:
                state["in_ctx"] -= 1

        def trace_store(self):
            if minimal_store:
                return MinimalStore.make_store(path)
            return SQLiteStore.make_store(path)

        def trace_logger(self):
            lg = TeeStoreLogger(CallTraceStoreLogger(self.trace_store()), state["faults"])
            state["box"].append(lg)
            return lg

        def code_filter(self):
            if state.get("cfg_raises") == "code_filter":
                state["cfg_raised"] = state.get("cfg_raised", 0) + 1
                raise RuntimeError("injected: configuration backend unavailable (code_filter)")
            return state["flt"]

        def sample_rate(self):
            if state.get("cfg_raises") == "sample_rate":
                state["cfg_raised"] = state.get("cfg_raised", 0) + 1
                raise RuntimeError("injected: configuration backend unavailable (sample_rate)")
            return state["rate"]

        def max_typed_dict_size(self):
            if state["k_decoy"] is not None and not state["in_ctx"]:
                state["decoy_reads"] += 1
                return state["k_decoy"]
            return state["k"]

        def type_rewriter(self):
            return make_rewriter(state["rewriter"])

        def query_limit(self):
            return 100000

    cfg = SimConfig()
    cfg.state = state
    return cfg


class Session:
    pass


def run_sessions(plan, lp, workdir):
    """Trace every session of the plan into one database. Returns list of Session observations."""
    import monkeytype
    import monkeytype.db.sqlite as S
    from monkeytype.typing import get_type
    import gc

    path = os.path.join(workdir, "traces.sqlite3")
    clock = SimClock()
    real_dt = S.datetime
    S.datetime = FakeDatetimeModule(clock)
    out = []
    cfg = None
    try:
        for si, ses in enumerate(plan["sessions"]):
            clock.days = ses.get("clock_days", 0)
            gc.collect()   # garbage of earlier runs is finalised (its bodies may journal) before the journal is reset
            rt.reset()
            D.get_driver()
            mat = D.Mat(lp)
            top = mat.script(ses["script"])
            flt, admitted = c02.make_filter({"filter": "fixture"}, lp)
            box = []
            if cfg is None:
                cfg = make_config(path, ses["k"], plan["rewriter"], flt, box, ses.get("faults"))
            else:
                cfg.state.update({"k": ses["k"], "faults": ses.get("faults"), "box": box, "flt": flt})
            # fault at session start: one of the Config hooks consulted by monkeytype.trace() raises
            cfg.state["cfg_raises"] = (ses.get("faults") or {}).get("cfg_raises")
            s = Session()
            s.index = si
            s.k = ses["k"]
            s.exc = None
            s.day = clock.days
            outer_cm = contextlib.nullcontext()
            if ses.get("outer_k") is not None:
                # the session runs nested inside another tracing block whose configuration differs (own store, other limit)
                outer_box = []
                outer_cfg = make_config(os.path.join(workdir, "outer.sqlite3"), ses["outer_k"], plan["rewriter"], flt, outer_box, None)
                outer_cm = monkeytype.trace(outer_cfg)
            try:
                with outer_cm:
                    with monkeytype.trace(cfg):
                        D.run_top(top)
            except Exception as e:
                s.exc = "%s: %s" % (type(e).__name__, e)
            sys.setprofile(None)
            s.journal = list(rt.J)
            s.logger = box[0] if box else None
            D.finish_handles()
            if s.logger is not None:
                V, ev, info, calls, comps, matched = TT.check(lp, s.journal, s.logger.logs, ses["k"], get_type, prefix="E2E", admitted=admitted)
                s.matched = matched
                s.comps = comps
                # which logged traces are acknowledged as committed
                ack = set()
                if s.logger.acked:
                    from monkeytype.encoding import CallTraceRow

                    for n in s.logger.delegated:
                        tr = s.logger.logs[n][0]
                        try:
                            CallTraceRow.from_trace(tr)
                        except Exception:
                            continue
                        ack.add(id(tr))
                s.acked_traces = ack
            else:
                s.matched, s.comps, s.acked_traces = [], [], set()
            out.append(s)
    finally:
        S.datetime = real_dt
    return out, path


def run_cli(argv_tail, path, k, rewriter_name, pre=(), k_decoy=None, minimal_store=False):
    """cli.main in-process with a synthetic config module. Returns (rc, stdout, stderr, exception)."""
    from monkeytype import cli

    cfg = make_config(path, k, rewriter_name, None, [], None, k_decoy=k_decoy, minimal_store=minimal_store)
    mod = types.ModuleType("simcfg_verif")
    mod.CONFIG = cfg
    sys.modules["simcfg_verif"] = mod
    so, se = io.StringIO(), io.StringIO()
    exc = None
    rc = None
    try:
        rc = cli.main(list(pre) + ["-c", "simcfg_verif:CONFIG"] + list(argv_tail), so, se)
    except SystemExit as e:
        rc = e.code
        exc = "SystemExit(%r)" % (e.code,)
    except Exception as e:
        import traceback

        exc = "".join(traceback.format_exception(type(e), e, e.__traceback__))[-1500:]
    finally:
        sys.modules.pop("simcfg_verif", None)
    return rc, so.getvalue(), se.getvalue(), exc


def stub_argv(flag, module):
    if flag == "ignore":
        return (), ["stub", "--ignore-existing-annotations", module]
    if flag == "omit":
        return (), ["stub", "--omit-existing-annotations", module]
    if flag == "norewrite":
        return ("--disable-type-rewriting",), ["stub", module]
    return (), ["stub", module]


def raw_rows(path):
    if not os.path.exists(path):
        return []
    c = sqlite3.connect(path)
    try:
        return c.execute("SELECT created_at, module, qualname, arg_types, return_type, yield_type FROM monkeytype_call_traces").fetchall()
    except sqlite3.OperationalError:
        return []
    finally:
        c.close()


def new_workdir():
    return tempfile.mkdtemp(prefix="verif-e2e-", dir=scratch_root())


def qualname_of(lp, f):
    if f["kind"] == "inner":
        outer = lp.funcs[f["outer_fid"]]
        return qualname_of(lp, outer) + ".<locals>." + f["name"]
    if f.get("cls"):
        # nested classes
        path = [f["name"]]
        c = next(x for x in lp.spec["classes"] if x["name"] == f["cls"])
        while c:
            path.append(c["name"])
            c = next((x for x in lp.spec["classes"] if x["name"] == c.get("outer")), None) if c.get("outer") else None
        return ".".join(reversed(path))
    return f["name"]
