"""Self-tests: determinism (same seed -> same event-log digests across processes, worker counts
and PYTHONHASHSEED values) and sensitivity (mutants applied to a scratch copy of /repo)."""
import json
import os
import subprocess
import sys
import tempfile

VERIF = os.path.dirname(os.path.dirname(os.path.dirname(os.path.abspath(__file__))))
ALL = ["C02", "C18", "C03", "C09", "C01", "C06", "C10", "C14", "C17"]


def run_digests(pid, runs, workers, hashseed, seed, tier="quick"):
    out = tempfile.mktemp(prefix="verif-dig-", dir="/dev/shm" if os.path.isdir("/dev/shm") else None)
    env = dict(os.environ)
    env.pop("VERIF_REEXEC", None)
    env.update({"VERIF_RUNS": str(runs), "VERIF_WORKERS": str(workers), "VERIF_HASHSEED": str(hashseed),
                "VERIF_SEED": str(seed), "VERIF_DIGEST_OUT": out, "VERIF_NO_EVIDENCE": "1"})
    p = subprocess.run([os.path.join(VERIF, "check"), pid, "--tier", tier], env=env, capture_output=True, text=True)
    try:
        with open(out) as f:
            d = json.load(f)
    finally:
        if os.path.exists(out):
            os.unlink(out)
    return d, p.returncode


def determinism(ids, runs):
    bad = 0
    for pid in ids:
        if not os.path.exists(os.path.join(VERIF, "dst", "props", pid.lower() + ".py")):
            continue
        for seed in (1, 7):
            a, _ = run_digests(pid, runs, 16, 0, seed)
            b, _ = run_digests(pid, runs, 3, 12345, seed)
            c, _ = run_digests(pid, runs, 16, 0, seed)
            diff_ab = [k for k in a if a[k] != b.get(k)]
            diff_ac = [k for k in a if a[k] != c.get(k)]
            print("%s seed=%d runs=%d: differing digests across worker-count/hashseed: %d, across repeats: %d%s" % (
                pid, seed, len(a), len(diff_ab), len(diff_ac), ("  e.g. run %s" % (diff_ab or diff_ac)[0]) if (diff_ab or diff_ac) else ""))
            bad += len(diff_ab) + len(diff_ac)
            if len(a) == 0:
                bad += 1
    print("DETERMINISM %s" % ("OK" if bad == 0 else "FAILED"))
    return 0 if bad == 0 else 1


def main(argv):
    if not argv:
        print("usage: --selftest determinism|sensitivity [IDs] [--runs N]")
        return 2
    runs = 2000
    ids = []
    i = 1
    while i < len(argv):
        if argv[i] == "--runs":
            runs = int(argv[i + 1])
            i += 2
        else:
            ids.append(argv[i].upper())
            i += 1
    ids = ids or ALL
    if argv[0] == "determinism":
        return determinism(ids, runs)
    if argv[0] == "benign":
        from . import benign

        return benign.main([x for x in argv[1:] if not x.startswith("--")])
    if argv[0] == "sensitivity":
        from . import sensitivity

        return sensitivity.main(ids)
    return 2
