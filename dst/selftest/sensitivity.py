"""Sensitivity self-test: break each property on purpose in a scratch worktree of /repo (never in
/repo itself), point the check at it (VERIF_REPO) and demand exit 1 within the quick tier.

Each mutant is (name, file, old text, new text); `old` must occur exactly once in the file.
Results are written to dst/selftest/SENSITIVITY.md.
"""
import os
import re
import subprocess
import sys
import time

VERIF = os.path.dirname(os.path.dirname(os.path.dirname(os.path.abspath(__file__))))
T = "monkeytype/tracing.py"
TY = "monkeytype/typing.py"
SQ = "monkeytype/db/sqlite.py"
CL = "monkeytype/cli.py"
CF = "monkeytype/config.py"
ST = "monkeytype/stubs.py"
EN = "monkeytype/encoding.py"
DB = "monkeytype/db/base.py"

MUTANTS = {
    "C02": [
        ("keep finished frame in traces", T, "            del self.traces[frame]\n            self.logger.log(trace)", "            self.logger.log(trace)"),
        ("log on every yield", T, "            trace.add_yield_type(typ)\n", "            trace.add_yield_type(typ)\n            self.logger.log(trace)\n"),
        ("lose keyword-only parameters", T, "code.co_varnames[: code.co_argcount + code.co_kwonlyargcount]", "code.co_varnames[: code.co_argcount]"),
        ("yield type overwritten instead of united", T, "            self.yield_type = cast(type, Union[self.yield_type, typ])", "            self.yield_type = typ"),
        ("lookup returns the decorating wrapper", T, "    while func is not None:\n        func_code = getattr(func, \"__code__\", None)\n        if func_code is code:\n            return func",
         "    outer = func\n    while func is not None:\n        func_code = getattr(func, \"__code__\", None)\n        if func_code is code:\n            return outer"),
        ("cache keyed by code equality again", T, "        entry = self.cache.get(id(code))\n        if entry is None:\n            entry = self.cache[id(code)] = (code, get_func(frame))",
         "        entry = self.cache.get(code)\n        if entry is None:\n            entry = self.cache[code] = (code, get_func(frame))"),
        ("await recorded as a yield again", T, "            if frame.f_code.co_flags & inspect.CO_COROUTINE:", "            if False and frame.f_code.co_flags & inspect.CO_COROUTINE:"),
        ("await suspension ends the call", T, "                # call is not over.\n                return\n", "                # call is not over.\n                del self.traces[frame]\n                self.logger.log(trace)\n                return\n"),
        ("argument values typed lazily, when the call returns", T,
         ["                arg_types[name] = get_type(\n                    frame.f_locals[name], max_typed_dict_size=self.max_typed_dict_size\n                )\n",
          "            del self.traces[frame]\n            self.logger.log(trace)"],
         ["                arg_types[name] = frame.f_locals[name]\n",
          "            trace.arg_types = {n: get_type(v, max_typed_dict_size=self.max_typed_dict_size) for n, v in trace.arg_types.items()}\n            del self.traces[frame]\n            self.logger.log(trace)"]),
        ("exception exit recorded as NoneType return", T, "            if last_opcode in (RETURN_VALUE_OPCODE, RETURN_CONST_OPCODE):\n                trace.return_type = typ", "            trace.return_type = typ"),
    ],
    "C18": [
        ("resumed frame starts a new trace", T, "        if frame in self.traces:\n            # resuming a generator; we've already seen this frame\n            return\n", ""),
        ("sampling inverted", T, "random.randrange(self.sample_rate) != 0", "random.randrange(self.sample_rate) == 0"),
        ("sample rate ignored", T, "        if self.sample_rate and random.randrange(self.sample_rate) != 0:\n            return\n", ""),
        ("return events sampled too", T, "        trace = self.traces.get(frame)\n        if trace is None:\n            return",
         "        trace = self.traces.get(frame)\n        if trace is None or (self.sample_rate and random.randrange(self.sample_rate) != 0):\n            return"),
    ],
    "C03": [
        ("getattr instead of getattr_static", T, "    val = inspect.getattr_static(obj, code.co_name, None)", "    val = getattr(obj, code.co_name, None)"),
        ("container subclasses are iterated", TY, "    if typ is list:\n        elem_type", "    if issubclass(typ, list):\n        elem_type"),
        ("only TypeError contained", T, "        except Exception:\n            logger.exception(\"Failed collecting trace\")", "        except TypeError:\n            logger.exception(\"Failed collecting trace\")"),
        ("profiler restored after flush", T, "        sys.setprofile(old_trace)\n        try:\n            logger.flush()", "        try:\n            logger.flush()\n            sys.setprofile(old_trace)"),
        ("flush twice", T, "        try:\n            logger.flush()\n", "        try:\n            logger.flush()\n            logger.flush()\n"),
        ("no finally", T, "    try:\n        yield\n    finally:\n        sys.setprofile(old_trace)\n        try:\n            logger.flush()", "    yield\n    if True:\n        sys.setprofile(old_trace)\n        try:\n            logger.flush()"),
        ("flush failure escapes again", T, "        try:\n            logger.flush()\n        except Exception:", "        try:\n            logger.flush()\n        except KeyError:"),
        ("isinstance on traced values again", TY, "    if issubclass(typ, type):\n        return Type[obj]", "    if isinstance(obj, type):\n        return Type[obj]"),
        ("module globals scanned with isinstance again", T, "            if not issubclass(type(v), type):\n                continue", "            if not isinstance(v, type):\n                continue"),
        ("tracer also installed in threads, never removed from running ones", T, "    sys.setprofile(CallTracer(logger, max_typed_dict_size, code_filter, sample_rate))\n    try:\n        yield\n    finally:\n        sys.setprofile(old_trace)\n",
         "    import threading\n    tracer = CallTracer(logger, max_typed_dict_size, code_filter, sample_rate)\n    threading.setprofile(tracer)\n    sys.setprofile(tracer)\n    try:\n        yield\n    finally:\n        threading.setprofile(None)\n        sys.setprofile(old_trace)\n"),
        ("truthiness test on traced values", TY, "        return Iterator[Any]\n    if typ is list:", "        return Iterator[Any]\n    if not obj and typ is object:\n        return typ\n    if typ is list:"),
    ],
    "C09": [
        ("commit per row", SQ, "        with self.conn:\n            self.conn.executemany(\n                \"INSERT INTO {table} VALUES (?, ?, ?, ?, ?, ?)\".format(\n                    table=self.table\n                ),\n                values,\n            )",
         "        for v in values:\n            self.conn.execute(\"INSERT INTO {table} VALUES (?, ?, ?, ?, ?, ?)\".format(table=self.table), v)\n            self.conn.commit()"),
        ("LIMIT off by one", SQ, "    LIMIT ?\n    \"\"\"\n    values.append(limit)", "    LIMIT ? - 1\n    \"\"\"\n    values.append(limit)"),
        ("dedup dropped", SQ, "    GROUP BY\n        module, qualname, arg_types, return_type, yield_type\n    ORDER BY", "    ORDER BY"),
        ("module matched with LIKE", SQ, "        module == ?", "        module LIKE ?"),
        ("one bad trace aborts the batch", EN, "        try:\n            yield CallTraceRow.from_trace(trace)\n        except Exception:\n            logger.exception(\"Failed to serialize trace\")", "        yield CallTraceRow.from_trace(trace)"),
        ("module listing truncated", SQ, "                        ORDER BY date(created_at) DESC\n                        \"\"\".format(", "                        ORDER BY date(created_at) DESC LIMIT 3\n                        \"\"\".format("),
        ("prefix compared case-insensitively", SQ, "instr(qualname, ?) == 1", "instr(lower(qualname), lower(?)) == 1"),
    ],
    "C01": [
        ("union drops its last member", TY, "    return Union[all_dict_types]", "    return Union[all_dict_types[:-1]] if len(all_dict_types) > 2 else Union[all_dict_types]"),
        ("config-dict rewrite keeps first value type", TY, "        return Dict[key_type, Union[tuple(value_types)]]", "        return Dict[key_type, value_types[0]]"),
        ("dict value type from first value only", TY, "        val_type = shrink_types(\n            (get_type(v, max_typed_dict_size) for v in dct.values()),\n            max_typed_dict_size,\n        )\n        return Dict[key_type, val_type]",
         "        val_type = shrink_types(\n            (get_type(v, max_typed_dict_size) for v in list(dct.values())[:1]),\n            max_typed_dict_size,\n        )\n        return Dict[key_type, val_type]"),
        ("stored NoneType decoded as absent", EN, "    if (encoded is None) or (encoded == \"null\"):\n        return None", "    if (encoded is None) or (encoded == \"null\") or ('\"NoneType\"' in encoded and 'elem_types' not in encoded):\n        return None"),
        ("TypedDict field imports dropped again", ST, "                imports.merge(get_imports_for_annotation(attribute_stub.typ))", "                pass"),
        ("first session's rows shadow later ones", SQ, "    ORDER BY date(created_at) DESC\n    LIMIT ?", "    ORDER BY date(created_at) DESC\n    LIMIT min(?, 3)"),
    ],
    "C06": [
        ("size test off by one", TY, "max_typed_dict_size is None or len(dct) <= max_typed_dict_size", "max_typed_dict_size is None or len(dct) <= max_typed_dict_size + 1"),
        ("merge fallback off by one", TY, "    if len(required_fields) + len(optional_fields) > max_typed_dict_size:", "    if len(required_fields) + len(optional_fields) > max_typed_dict_size + 1:"),
        ("empty dict becomes an empty TypedDict", TY, "    if len(dct) == 0:\n        # Special-case", "    if len(dct) == 0 and not max_typed_dict_size:\n        # Special-case"),
        ("non-string keys accepted", TY, "    if all(isinstance(k, str) for k in dct.keys()) and (", "    if all(isinstance(k, (str, int)) for k in dct.keys()) and ("),
        ("stub-time limit is a constant", CL, "        args.config.max_typed_dict_size(),\n        existing_annotation_strategy", "        10,\n        existing_annotation_strategy"),
    ],
    "C10": [
        ("only NameLookupError skipped", CL, "        except MonkeyTypeError as mte:", "        except NameLookupError as mte:"),
        ("stop at the first stale row", CL, "            failed_to_decode_count += 1\n", "            failed_to_decode_count += 1\n            break\n"),
        ("count every row", CL, "    for thunk in thunks:\n        try:", "    for thunk in thunks:\n        failed_to_decode_count += 1\n        try:"),
        ("give up when anything is stale", CL, "    if not traces:\n        return None", "    if not traces or failed_to_decode_count:\n        return None"),
        ("silent when nothing decodes", CL, "    else:\n        print(f\"No traces found for module {module}\", file=stderr)", "    else:\n        pass"),
    ],
    "C14": [
        ("first-seen return type wins", ST, "        if t.return_type is not None:\n            return_types.add(t.return_type)", "        if t.return_type is not None and not return_types:\n            return_types.add(t.return_type)"),
        ("only adjacent traces merged", ST, "    for trace in traces:\n        index[trace.func].add(trace)", "    last = None\n    for trace in traces:\n        if last is not None and last is not trace.func:\n            index[trace.func] = set()\n        last = trace.func\n        index[trace.func].add(trace)"),
        ("duplicates consume the limit", SQ, "    GROUP BY\n        module, qualname, arg_types, return_type, yield_type\n    ORDER BY", "    ORDER BY"),
    ],
    "C17": [
        ("site-packages not a library root", CF, "lib_paths = {sysconfig.get_path(n) for n in [\"stdlib\", \"purelib\", \"platlib\"]}", "lib_paths = {sysconfig.get_path(n) for n in [\"stdlib\", \"platlib\"]}"),
        ("string prefix instead of path components", CF, "    try:\n        return bool(a.relative_to(b))\n    except ValueError:\n        return False", "    return str(a).startswith(str(b))"),
        ("symlinks not resolved", CF, "    filename = pathlib.Path(code.co_filename).resolve()", "    filename = pathlib.Path(code.co_filename).absolute()"),
        ("__main__ recorded", DB, "        if not trace.func.__module__ == \"__main__\":\n            self.traces.append(trace)", "        self.traces.append(trace)"),
        ("allow-list negated", CF, "        return any(m == filename.stem or m in filename.parts for m in trace_modules)", "        return not any(m == filename.stem or m in filename.parts for m in trace_modules)"),
        ("filter applied to the caller's code", T, "            and not self.should_trace(code)", "            and not self.should_trace(frame.f_back.f_code if frame.f_back is not None else code)"),
    ],
}


def sh(*a, **k):
    return subprocess.run(list(a), capture_output=True, text=True, **k)


def main(ids):
    rows = []
    bad = 0
    for pid in ids:
        for name, fn, old, new in MUTANTS.get(pid, []):
            if os.environ.get("VERIF_MUTANT") and os.environ["VERIF_MUTANT"] not in name:
                continue
            wt = "/tmp/sens-%s-%d" % (pid, os.getpid())
            sh("git", "-C", "/repo", "worktree", "add", "--detach", wt, "HEAD")
            try:
                path = os.path.join(wt, fn)
                src = open(path).read()
                olds, news = (old, new) if isinstance(old, list) else ([old], [new])
                if any(src.count(o) != 1 for o in olds):
                    rows.append((pid, name, "mutant does not apply (%r matches)" % [src.count(o) for o in olds], "", ""))
                    bad += 1
                    continue
                for o, n_ in zip(olds[:-1], news[:-1]):
                    src = src.replace(o, n_)
                old, new = olds[-1], news[-1]
                extra = ""
                if "NameLookupError" in new and "import" not in new and fn == CL:
                    src = src.replace("from monkeytype.exceptions import MonkeyTypeError", "from monkeytype.exceptions import MonkeyTypeError, NameLookupError")
                open(path, "w").write(src.replace(old, new) + extra)
                env = dict(os.environ, VERIF_REPO=wt, VERIF_NO_EVIDENCE="1", VERIF_STOP_ON_VIOLATION="1")
                env.pop("VERIF_REEXEC", None)
                t = time.time()
                p = sh(os.path.join(VERIF, "check"), pid, "--tier", "quick", env=env, cwd=VERIF)
                wall = time.time() - t
                clauses = sorted(set(re.findall(r"^violation clause=(\S+) cause=None", p.stdout, re.M)))
                ok = p.returncode == 1
                try:
                    st = sh("/venv/bin/python", "-m", "pytest", "-q", "-x", "-p", "no:cacheprovider", "--timeout=120", "--deselect",
                            "tests/test_config.py::TestDefaultCodeFilter::test_excludes_site_packages", cwd=wt, env=dict(os.environ, PYTHONPATH=wt), timeout=300)
                    suite = "suite passes" if st.returncode == 0 else "suite FAILS (mutant visible to the existing tests)"
                except subprocess.TimeoutExpired:
                    suite = "suite HANGS (mutant visible to the existing tests)"
                rows.append((pid, name, "DETECTED" if ok else "MISSED (exit %d)" % p.returncode, ", ".join(clauses), "%s; %.0f s" % (suite, wall)))
                if not ok:
                    bad += 1
                print(rows[-1], flush=True)
            finally:
                sh("git", "-C", "/repo", "worktree", "remove", "--force", wt)
                sh("git", "-C", "/repo", "worktree", "prune")
    out = os.path.join(VERIF, "dst", "selftest", "SENSITIVITY.md")
    prev = {}
    if os.path.exists(out):
        for line in open(out):
            m = re.match(r"\| (C\d+) \| (.*?) \| (.*?) \| (.*?) \| (.*?) \|$", line.strip())
            if m:
                prev[(m.group(1), m.group(2))] = m.groups()
    for r in rows:
        prev[(r[0], r[1])] = r
    with open(out, "w") as f:
        f.write("# Sensitivity self-test: own mutants vs. the quick checks\n\n| check | mutant | result | clauses | notes |\n|---|---|---|---|---|\n")
        for k in sorted(prev):
            f.write("| %s | %s | %s | %s | %s |\n" % prev[k])
    print("SENSITIVITY %s (%d mutants, %d not detected)" % ("OK" if bad == 0 else "INCOMPLETE", len(rows), bad))
    return 0 if bad == 0 else 1
