"""False-alarm self-test: semantics-preserving (for the given properties) refactorings of MonkeyType
applied to a scratch worktree; the named checks must stay quiet (exit 0).

Each entry: (name, [checks], [(file, old, new), ...]).
"""
import os
import re
import subprocess
import sys
import time

VERIF = os.path.dirname(os.path.dirname(os.path.dirname(os.path.abspath(__file__))))
T = "monkeytype/tracing.py"
TY = "monkeytype/typing.py"
SQ = "monkeytype/db/sqlite.py"
CL = "monkeytype/cli.py"
CF = "monkeytype/config.py"
DB = "monkeytype/db/base.py"
EN = "monkeytype/encoding.py"

BENIGN = [
    ("rows ordered by full timestamp instead of date()", ["C09", "C14", "C10"], [
        (SQ, "    ORDER BY date(created_at) DESC\n    LIMIT ?", "    ORDER BY created_at DESC\n    LIMIT ?")]),
    ("logger hands its batch over and clears it before add()", ["C01", "C17", "C09"], [
        (DB, "        self.store.add(self.traces)\n        self.traces = []", "        traces, self.traces = self.traces, []\n        self.store.add(traces)")]),
    ("skipped-count message reworded", ["C10"], [
        (CL, "            f\"{failed_to_decode_count} traces failed to decode; use -v for details\",", "            f\"skipped {failed_to_decode_count} undecodable trace(s) (re-run with -v to list them)\",")]),
    ("no-traces message reworded", ["C10"], [
        (CL, "        print(f\"No traces found for module {module}\", file=stderr)", "        print(f\"nothing recorded for {module} yet\", file=stderr)")]),
    ("library roots tested with is_relative_to", ["C17"], [
        (CF, "    try:\n        return bool(a.relative_to(b))\n    except ValueError:\n        return False", "    return a.is_relative_to(b) and a != b")]),
    ("write-ahead log enabled for the store", ["C09", "C01"], [
        (SQ, "        conn = sqlite3.connect(connection_string)\n        create_call_trace_table(conn)", "        conn = sqlite3.connect(connection_string)\n        conn.execute(\"PRAGMA journal_mode=WAL\")\n        create_call_trace_table(conn)")]),
    ("encoded types use compact JSON separators", ["C09", "C06", "C10", "C14"], [
        (EN, "    return json.dumps(type_dict, sort_keys=True)\n\n\ndef type_from_json", "    return json.dumps(type_dict, sort_keys=True, separators=(\",\", \":\"))\n\n\ndef type_from_json")]),
    ("resumption check only for generator-like code", ["C02", "C18"], [
        (T, "        if frame in self.traces:\n            # resuming a generator; we've already seen this frame\n            return\n",
         "        if code.co_flags & (inspect.CO_GENERATOR | inspect.CO_COROUTINE | inspect.CO_ASYNC_GENERATOR | inspect.CO_ITERABLE_COROUTINE) and frame in self.traces:\n            # resuming a generator; we've already seen this frame\n            return\n")]),
    ("stub import block rendered one name per line", ["C01", "C14", "C10"], [
        ("monkeytype/stubs.py", "            if len(names) == 1:\n                imports.append(\"from %s import %s\" % (module, names[0]))\n            else:",
         "            if False:\n                pass\n            else:")]),
    ("sampling RNG imported as a function", ["C18"], [
        (T, "import random\n", "import random\nfrom random import randrange as _randrange\n"),
        (T, "random.randrange(self.sample_rate) != 0", "_randrange(self.sample_rate) != 0")]),
]


def sh(*a, **k):
    return subprocess.run(list(a), capture_output=True, text=True, **k)


def main(only=None):
    rows = []
    bad = 0
    for name, checks, edits in BENIGN:
        if only and not any(o.lower() in name.lower() for o in only):
            continue
        wt = "/tmp/benign-%d" % os.getpid()
        sh("git", "-C", "/repo", "worktree", "add", "--detach", wt, "HEAD")
        try:
            ok_apply = True
            for fn, old, new in edits:
                path = os.path.join(wt, fn)
                src = open(path).read()
                if src.count(old) != 1:
                    ok_apply = False
                    break
                open(path, "w").write(src.replace(old, new))
            if not ok_apply:
                rows.append((name, "-", "variant does not apply", ""))
                bad += 1
                continue
            st = sh("/venv/bin/python", "-m", "pytest", "-q", "-x", "-p", "no:cacheprovider", "--timeout=120", "--deselect",
                    "tests/test_config.py::TestDefaultCodeFilter::test_excludes_site_packages", cwd=wt, env=dict(os.environ, PYTHONPATH=wt))
            suite = "suite passes" if st.returncode == 0 else "suite fails"
            for c in checks:
                env = dict(os.environ, VERIF_REPO=wt, VERIF_NO_EVIDENCE="1")
                env.pop("VERIF_REEXEC", None)
                t = time.time()
                p = sh(os.path.join(VERIF, "check"), c, "--tier", "quick", env=env, cwd=VERIF)
                res = "quiet" if p.returncode == 0 else ("ALARM" if p.returncode == 1 else "harness error (exit %d)" % p.returncode)
                detail = "; ".join(re.findall(r"^violation clause=(\S+ cause=\S+)", p.stdout, re.M))[:200]
                if p.returncode == 2:
                    detail = p.stdout[-300:].replace("\n", " | ")
                rows.append((name, c, res, "%s; %.0f s %s" % (suite, time.time() - t, detail)))
                if p.returncode != 0:
                    bad += 1
                print(rows[-1], flush=True)
        finally:
            sh("git", "-C", "/repo", "worktree", "remove", "--force", wt)
            sh("git", "-C", "/repo", "worktree", "prune")
    out = os.path.join(VERIF, "dst", "selftest", "BENIGN.md")
    with open(out, "w") as f:
        f.write("# False-alarm self-test: property-preserving refactorings vs. the quick checks (must stay quiet)\n\n| variant | check | result | notes |\n|---|---|---|---|\n")
        for r in rows:
            f.write("| %s | %s | %s | %s |\n" % r)
    print("BENIGN %s (%d results, %d not quiet)" % ("OK" if bad == 0 else "PROBLEMS", len(rows), bad))
    return 0 if bad == 0 else 1
