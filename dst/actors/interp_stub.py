"""Fresh-interpreter phase: generate one stub with pinned PYTHONHASHSEED / layout salt.

usage: python interp_stub.py <json-args>   (prints one JSON object)
"""
import json
import sys


def main():
    a = json.loads(sys.argv[1])
    junk = [type("Junk%d" % i, (), {"x": i}) for i in range(a.get("salt", 0))]  # layout salt: shifts heap addresses
    sys.path[:0] = [a["repo"], a["verif"], a["root"]]
    import warnings

    warnings.simplefilter("ignore")
    import logging

    logging.getLogger("monkeytype").addHandler(logging.NullHandler())
    from dst.world import e2e as E

    pre, tail = E.stub_argv(a["flag"], a["module"])
    pre = tuple(pre) + ("--limit", str(a["limit"]))
    rc, out, err, exc = E.run_cli(tail, a["db"], a["k"], a["rewriter"], pre)
    print(json.dumps({"rc": rc, "out": out, "err": err, "exc": exc, "junk": len(junk)}))


if __name__ == "__main__":
    main()
