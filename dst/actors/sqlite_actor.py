"""Forked SQLite actors stepped in lock-step by the scheduler.

Each actor is a real process with its own connection(s) to the shared database file, opened by the
real SQLiteStore.make_store through a connect proxy (timeout=0: a lock conflict is an immediate
'database is locked' instead of a real-time wait).  Exactly one process runs at any time: an actor
executes one command and answers, or *parks* inside SQLite's progress handler (every vm_step VM
instructions of a selected add) and waits for the scheduler's decision: resume, abort the statement
(one-shot, like sqlite3_interrupt), or be SIGKILLed.
"""
import datetime as _dt
import json
import os
import resource
import select
import signal
import sqlite3 as _sqlite3
import sys
import traceback
import types
from typing import List

ARG_SHAPES = [{}, {"a": int}, {"a": str}, {"a": int, "b": List[str]}, {"x": type(None)}]
RET_SHAPES = [None, int, type(None), List[int]]
from typing import Union  # noqa: E402

# (the last two are equal as types - and make equal CallTraces - but encode to different JSON texts, i.e. to two distinct rows)
YLD_SHAPES = [None, int, str, Union[int, str], Union[str, int]]


class Clock:
    def __init__(self):
        self.now_value = _dt.datetime(2024, 1, 1, 12, 0, 0)

    def set(self, days):
        self.now_value = _dt.datetime(2024, 1, 1, 12, 0, 0) + _dt.timedelta(days=days)


class _FakeDatetimeClass:
    def __init__(self, clock):
        self._clock = clock

    def now(self, tz=None):
        v = self._clock.now_value
        self._clock.now_value = v + _dt.timedelta(microseconds=1)
        return v

    def __getattr__(self, n):
        return getattr(_dt.datetime, n)


class FakeDatetimeModule:
    """Stand-in for the `datetime` module as seen by monkeytype.db.sqlite."""

    def __init__(self, clock):
        self.datetime = _FakeDatetimeClass(clock)

    def __getattr__(self, n):
        return getattr(_dt, n)


class SqliteProxy:
    """Stand-in for the `sqlite3` module as seen by monkeytype.db.sqlite: connect() with timeout=0."""

    def __init__(self):
        self.connections = []

    def connect(self, *a, **k):
        k.setdefault("timeout", 0)
        c = _sqlite3.connect(*a, **k)
        self.connections.append(c)
        return c

    def __getattr__(self, n):
        return getattr(_sqlite3, n)


_FUNCS = {}


def make_func(module, qualname):
    """One function object per (module, qualname), as in a real program: traces of the same function compare equal when their
    types do (a store that de-duplicates CallTrace objects instead of rows then drops textually different rows)."""
    if (module, qualname) in _FUNCS:
        return _FUNCS[(module, qualname)]

    def f():
        pass

    f.__module__ = module
    f.__qualname__ = qualname
    f.__name__ = qualname.split(".")[-1]
    _FUNCS[(module, qualname)] = f
    return f


def build_trace(spec):
    from monkeytype.tracing import CallTrace

    args = dict(ARG_SHAPES[spec["args"]])
    if spec.get("bad"):
        args = {"a": 5}  # not a type: cannot be encoded
    return CallTrace(make_func(spec["m"], spec["q"]), args, RET_SHAPES[spec["ret"]], YLD_SHAPES[spec["yld"]])


def row_tuple(r):
    return [r.module, r.qualname, r.arg_types, r.return_type, r.yield_type]


class ActorMain:
    def __init__(self, rfd, wfd, path, is_observer):
        self.r = os.fdopen(rfd, "r")
        self.w = os.fdopen(wfd, "w")
        self.path = path
        self.store = None
        self.clock = Clock()
        self.proxy = SqliteProxy()
        self.is_observer = is_observer
        self.cache_size = None

    def send(self, obj):
        self.w.write(json.dumps(obj) + "\n")
        self.w.flush()

    def recv(self):
        line = self.r.readline()
        if not line:
            os._exit(0)
        return json.loads(line)

    def loop(self):
        import logging

        logging.getLogger("monkeytype").addHandler(logging.NullHandler())
        logging.getLogger("monkeytype").propagate = False
        import warnings

        warnings.simplefilter("ignore")
        import monkeytype.db.sqlite as S

        S.sqlite3 = self.proxy
        S.datetime = FakeDatetimeModule(self.clock)
        self.S = S
        # time seam: code under test that sleeps (a retry loop around a locked database) parks here instead, so that the
        # scheduler decides what happens during the sleep; the unchanged tree never sleeps
        import time as _time

        def _sim_sleep(secs, _self=self):
            _self.send({"sleeping": secs})
            _self.recv()

        _time.sleep = _sim_sleep
        signal.signal(signal.SIGXFSZ, signal.SIG_IGN)
        while True:
            cmd = self.recv()
            try:
                out = self.dispatch(cmd)
            except BaseException as e:  # noqa
                if isinstance(e, SystemExit):
                    raise
                out = {"err": "%s: %s" % (type(e).__name__, e), "tb": traceback.format_exc()[-1500:]}
            self.send(out)

    # ---- commands
    def dispatch(self, cmd):
        op = cmd["op"]
        if op == "open":
            self.cache_size = cmd.get("cache_size")
            return self.open()
        if op == "reopen":
            self.close()
            return self.open()
        if op == "close":
            self.close()
            return {"ok": True}
        if op == "add":
            return self.add(cmd)
        if op in ("filter", "list_modules", "add") and self.store is None:
            return {"err": "NoStore: the store could not be (re)opened earlier"}
        if op == "filter":
            rows = self.store.filter(cmd["m"], cmd.get("p"), cmd["n"]) if "n" in cmd else self.store.filter(cmd["m"], cmd.get("p"))
            return {"ok": True, "rows": [row_tuple(r) for r in rows]}
        if op == "list_modules":
            return {"ok": True, "modules": list(self.store.list_modules())}
        if op == "clock":
            self.clock.set(cmd["days"])
            return {"ok": True}
        if op == "rlimit":
            soft, hard = resource.getrlimit(resource.RLIMIT_FSIZE)
            if cmd.get("heal"):
                resource.setrlimit(resource.RLIMIT_FSIZE, (hard, hard))
            else:
                size = os.path.getsize(self.path) if os.path.exists(self.path) else 0
                resource.setrlimit(resource.RLIMIT_FSIZE, (size + cmd["extra"], hard))
            return {"ok": True}
        if op == "encode":
            from monkeytype.encoding import CallTraceRow

            return {"ok": True, "expected": [row_tuple(CallTraceRow.from_trace(build_trace(sp))) for sp in cmd["batch"] if not sp.get("bad")]}
        if op == "raw":
            return self.raw(cmd.get("path") or self.path)
        if op == "image":
            return self.image(cmd["dst"])
        if op == "exit":
            self.close()   # a clean shutdown (checkpoints a write-ahead log, if the store uses one)
            self.send({"ok": True})
            os._exit(0)
        return {"err": "unknown op"}

    def open(self):
        self.store = self.S.SQLiteStore.make_store(self.path)
        if self.cache_size:
            self.store.conn.execute("PRAGMA cache_size=%d" % self.cache_size)
        return {"ok": True}

    def close(self):
        if self.store is not None:
            try:
                self.store.conn.close()
            except Exception:
                pass
            self.store = None

    def add(self, cmd):
        from monkeytype.encoding import CallTraceRow

        traces = [build_trace(s) for s in cmd["batch"]]
        expected = []
        for t, s in zip(traces, cmd["batch"]):
            if not s.get("bad"):
                expected.append(row_tuple(CallTraceRow.from_trace(t)))
        park_every = cmd.get("park_every") or 0
        state = {"i": 0, "abort": False}
        conn = self.store.conn
        if park_every:
            def handler():
                i = state["i"]
                state["i"] = i + 1
                self.send({"parked": i})
                d = self.recv()
                if d["do"] == "abort":
                    if state.get("stmt", "").lstrip().upper().startswith("ROLLBACK"):
                        # the insert has already failed for another reason and the store is rolling back: the interrupt is aimed
                        # at the write, not at the store's error handling (an interrupted ROLLBACK leaves the transaction open)
                        return 0
                    conn.set_progress_handler(None, 0)  # one-shot, like sqlite3_interrupt()
                    return 1
                if d["do"] == "free":
                    conn.set_progress_handler(None, 0)
                return 0

            conn.set_progress_handler(handler, park_every)
            conn.set_trace_callback(lambda sql: state.__setitem__("stmt", sql))
        try:
            try:
                if cmd.get("via_logger"):
                    # the way traces really arrive: through the store logger's buffer and its flush()
                    from monkeytype.db.base import CallTraceStoreLogger

                    lg = CallTraceStoreLogger(self.store)
                    for t in traces:
                        lg.log(t)
                    lg.flush()
                else:
                    self.store.add(traces)
            finally:
                if park_every:
                    conn.set_progress_handler(None, 0)
                    conn.set_trace_callback(None)
        except Exception as e:
            return {"err": "%s: %s" % (type(e).__name__, e), "expected": expected, "parks": state["i"]}
        return {"ok": True, "expected": expected, "parks": state["i"]}

    def raw(self, path):
        c = _sqlite3.connect(path, timeout=0)
        try:
            rows = c.execute("SELECT module, qualname, arg_types, return_type, yield_type FROM monkeytype_call_traces").fetchall()
            integ = c.execute("PRAGMA integrity_check").fetchall()
        finally:
            c.close()
        return {"ok": True, "rows": [list(r) for r in rows], "integrity": [list(x) for x in integ]}

    def image(self, dst):
        import shutil

        for suffix in ("", "-journal", "-wal", "-shm"):
            if os.path.exists(dst + suffix):
                os.unlink(dst + suffix)
        shutil.copyfile(self.path, dst)
        had_journal = False
        # rollback journal or write-ahead log, whichever the store uses
        for suffix in ("-journal", "-wal", "-shm"):
            if os.path.exists(self.path + suffix):
                shutil.copyfile(self.path + suffix, dst + suffix)
                had_journal = True
        out = self.raw(dst)
        out["had_journal"] = had_journal
        for suffix in ("", "-journal", "-wal", "-shm"):
            if os.path.exists(dst + suffix):
                os.unlink(dst + suffix)
        return out


class Actor:
    """Scheduler-side handle of one forked actor."""

    def __init__(self, path, observer=False):
        c2p_r, c2p_w = os.pipe()
        p2c_r, p2c_w = os.pipe()
        pid = os.fork()
        if pid == 0:
            try:
                os.close(c2p_r)
                os.close(p2c_w)
                ActorMain(p2c_r, c2p_w, path, observer).loop()
            except BaseException:
                traceback.print_exc()
            finally:
                os._exit(0)
        os.close(c2p_w)
        os.close(p2c_r)
        self.pid = pid
        self.r = os.fdopen(c2p_r, "r")
        self.w = os.fdopen(p2c_w, "w")
        self.alive = True
        self.parked = False

    def send(self, obj):
        self.w.write(json.dumps(obj) + "\n")
        self.w.flush()

    def recv(self, timeout=30):
        rl, _, _ = select.select([self.r], [], [], timeout)
        if not rl:
            raise TimeoutError("actor %d did not answer" % self.pid)
        line = self.r.readline()
        if not line:
            self.alive = False
            return {"err": "actor died"}
        return json.loads(line)

    def call(self, obj, timeout=30, auto_wake=True):
        self.send(obj)
        r = self.recv(timeout)
        n = 0
        while auto_wake and isinstance(r, dict) and "sleeping" in r and n < 8:
            n += 1
            self.send({"do": "wake"})
            r = self.recv(timeout)
        return r

    def kill(self):
        if self.alive:
            try:
                os.kill(self.pid, signal.SIGKILL)
            except OSError:
                pass
            self.reap()

    def reap(self):
        try:
            os.waitpid(self.pid, 0)
        except OSError:
            pass
        self.alive = False
        for f in (self.r, self.w):
            try:
                f.close()
            except Exception:
                pass

    def stop(self):
        if self.alive:
            try:
                self.send({"op": "exit"})
                self.recv(5)
            except Exception:
                pass
            self.kill()
